"""Second back end: Kani / CBMC on a per-run copy of /repo with harness modules appended.

kani/harnesses.json lists the harnesses:
  name      harness function name
  props     property ids served
  role      complete  = loop-free (or fully unwound with unwinding assertions) over full-domain kani::any() inputs: a proof
            bounded   = arrays / sequences of stated small size: a bounded stand-in or a counterexample finder, never a proof
  tier      quick | thorough
  file      kani/<x>.rs ; its first line `// @append-to: src/<file>.rs` says which module it is appended to
  bound     free text
"""
import json
import os
import re
import shutil
import subprocess
import time

HERE = os.path.dirname(os.path.abspath(__file__))
VERIF = os.path.dirname(HERE)


def registry():
    p = os.path.join(VERIF, 'kani', 'harnesses.json')
    if not os.path.exists(p):
        return []
    return json.load(open(p))['harnesses']


def harnesses_for(pid, tier, role=None):
    out = []
    for h in registry():
        if pid in h['props'] and (tier == 'thorough' or h.get('tier', 'quick') == 'quick'):
            if role is None or h['role'] == role:
                out.append(h)
    return out


def make_copy(repo, scratch, files, with_tests=False):
    dst = os.path.join(scratch, 'kani-crate')
    if os.path.exists(dst):
        shutil.rmtree(dst)
    os.makedirs(dst)
    shutil.copy(os.path.join(repo, 'Cargo.toml'), dst)
    if os.path.exists(os.path.join(repo, 'Cargo.lock')):
        shutil.copy(os.path.join(repo, 'Cargo.lock'), dst)
    shutil.copytree(os.path.join(repo, 'src'), os.path.join(dst, 'src'),
                    ignore=lambda d, names: [n for n in names if n == 'tests.rs' and not with_tests])
    os.makedirs(os.path.join(dst, '.cargo'))
    open(os.path.join(dst, '.cargo', 'config.toml'), 'w').write('[net]\noffline = true\n')
    for f in sorted(set(files)):
        txt = open(os.path.join(VERIF, f)).read()
        m = re.match(r'// @append-to: (\S+)', txt)
        target = os.path.join(dst, m.group(1))
        with open(target, 'a') as out:
            out.write('\n' + txt)
    return dst


def run_harnesses(pid, hs, repo, scratch, say, extra_args=(), timeout=900):
    dst = make_copy(repo, scratch, [h['file'] for h in hs])
    env = dict(os.environ, CARGO_NET_OFFLINE='true', CARGO_TARGET_DIR=os.path.join(scratch, 'kani-target'))
    cmd = ['cargo', 'kani', '-Z', 'function-contracts']
    for h in hs:
        cmd += ['--harness', h['name']]
    cmd += list(extra_args)
    t0 = time.time()
    try:
        p = subprocess.run(cmd, cwd=dst, env=env, stdout=subprocess.PIPE, stderr=subprocess.STDOUT, text=True, timeout=timeout)
        out, rc = p.stdout, p.returncode
    except subprocess.TimeoutExpired as e:
        out, rc = ((e.stdout or b'').decode(errors='replace') if isinstance(e.stdout, bytes) else (e.stdout or '')) + '\nTIMEOUT', 124
    wall = time.time() - t0
    open(os.path.join(scratch, 'kani.log'), 'w').write(out)
    res = []
    # split per harness
    blocks = re.split(r'(?m)^Checking harness ', out)
    per = {}
    for b in blocks[1:]:
        name = b.split('...')[0].strip()
        short = name.split('::')[-1]
        ok = 'VERIFICATION:- SUCCESSFUL' in b
        failed = 'VERIFICATION:- FAILED' in b
        # a solver that ran out of memory / crashed / timed out has decided nothing
        crashed = 'out of memory' in b or 'CBMC failed' in b or 'CBMC timed out' in b or ('Failed Checks:' not in b and 'Status: FAILURE' not in b)
        per[short] = ('ok' if ok and not failed else 'error' if failed and crashed else 'failed' if failed else 'error', b)
    for h in hs:
        st, detail = per.get(h['name'], ('error', out[-1500:]))
        tm = re.search(r'Verification Time: ([0-9.]+)s', detail)
        res.append({'name': h['name'], 'role': h['role'], 'about': h.get('about', 'property'), 'status': st, 'bound': h.get('bound', ''),
                    'wall_s': float(tm.group(1)) if tm else round(wall, 1), 'detail': detail[-3000:]})
    say(pid, 'kani: %s  (%.1f s)' % (', '.join('%s=%s' % (r['name'], r['status']) for r in res), wall))
    shutil.rmtree(os.path.join(scratch, 'kani-target'), ignore_errors=True)
    return res


def playback(h, repo, scratch, say, timeout=900):
    """the verifier's counterexample: re-run a failed harness with Kani's concrete playback and return the generated unit test"""
    dst = make_copy(repo, scratch, [h['file']])
    env = dict(os.environ, CARGO_NET_OFFLINE='true', CARGO_TARGET_DIR=os.path.join(scratch, 'kani-target'))
    cmd = ['cargo', 'kani', '-Z', 'function-contracts', '-Z', 'concrete-playback', '--concrete-playback=print', '--harness', h['name']]
    try:
        p = subprocess.run(cmd, cwd=dst, env=env, stdout=subprocess.PIPE, stderr=subprocess.STDOUT, text=True, timeout=timeout)
        out = p.stdout
    except subprocess.TimeoutExpired:
        return None
    finally:
        shutil.rmtree(os.path.join(scratch, 'kani-target'), ignore_errors=True)
    m = re.search(r'```\n(.*?)```', out, re.S)
    if not m:
        return None
    code = m.group(1)
    nm = re.search(r'fn (kani_concrete_playback_\w+)\(', code)
    if not nm:
        return None
    return {'search': 'kani-playback', 'harness': h['name'], 'file': h['file'], 'test_name': nm.group(1), 'test': code,
            'observed': 'Kani/CBMC counterexample for harness %s (concrete playback unit test)' % h['name']}


def replay_playback(w, repo, scratch):
    """execute Kani's concrete playback unit test against the real code (native execution); True if the harness assertion fails"""
    dst = make_copy(repo, scratch, [w['file']], with_tests=True)
    txt = open(os.path.join(VERIF, w['file'])).read()
    target = os.path.join(dst, re.match(r'// @append-to: (\S+)', txt).group(1))
    s = open(target).read().rstrip()
    assert s.endswith('}')
    body = '\n'.join('    ' + l for l in w['test'].split('\n'))
    open(target, 'w').write(s[:-1] + body + '\n}\n')
    env = dict(os.environ, CARGO_NET_OFFLINE='true', CARGO_TARGET_DIR=os.path.join(scratch, 'kani-target'))
    p = subprocess.run(['cargo', 'kani', 'playback', '-Z', 'concrete-playback', '--', w['test_name']], cwd=dst, env=env,
                       stdout=subprocess.PIPE, stderr=subprocess.STDOUT, text=True, timeout=1200)
    shutil.rmtree(os.path.join(scratch, 'kani-target'), ignore_errors=True)
    out = p.stdout
    tail = '\n'.join(l for l in out.split('\n') if 'panicked' in l or 'assertion' in l or l.startswith('test result') or 'Failed Checks' in l)[-1500:]
    return ('test result: FAILED' in out and w['test_name'] in out), tail


def standins_for(pid):
    p = os.path.join(VERIF, 'kani', 'harnesses.json')
    if not os.path.exists(p):
        return []
    return [s for s in json.load(open(p)).get('standins', []) if pid in s['props']]
