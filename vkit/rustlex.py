"""Tiny Rust-aware lexer and item finder used by the annotator.

It understands just enough Rust to find, in a source file:
  * impl / trait / mod blocks and the functions declared in them,
  * the signature span, return type and body braces of each function,
  * the loops (while / for / loop) in each body, in source order.
Comments, strings, char literals and lifetimes are tokenised so that braces
inside them are never counted.  Nothing here rewrites code.
"""
import re
from dataclasses import dataclass, field

IDENT = re.compile(r'[A-Za-z_][A-Za-z0-9_]*')
NUM = re.compile(r'[0-9][0-9A-Za-z_\.]*')


@dataclass
class Tok:
    kind: str   # ws comment str char life ident num punct
    text: str
    pos: int    # byte offset (python str index) in the source

    @property
    def end(self):
        return self.pos + len(self.text)


def lex(src):
    toks = []
    i, n = 0, len(src)
    while i < n:
        c = src[i]
        if c.isspace():
            j = i
            while j < n and src[j].isspace():
                j += 1
            toks.append(Tok('ws', src[i:j], i)); i = j; continue
        if src.startswith('//', i):
            j = src.find('\n', i)
            j = n if j < 0 else j
            toks.append(Tok('comment', src[i:j], i)); i = j; continue
        if src.startswith('/*', i):
            depth, j = 1, i + 2
            while j < n and depth:
                if src.startswith('/*', j):
                    depth += 1; j += 2
                elif src.startswith('*/', j):
                    depth -= 1; j += 2
                else:
                    j += 1
            toks.append(Tok('comment', src[i:j], i)); i = j; continue
        # raw strings  r"..."  r#"..."#  br#"..."#
        m = re.compile(r'b?r(#*)"').match(src, i)
        if m:
            close = '"' + m.group(1)
            j = src.find(close, m.end())
            j = n if j < 0 else j + len(close)
            toks.append(Tok('str', src[i:j], i)); i = j; continue
        if c == '"' or (c == 'b' and i + 1 < n and src[i + 1] == '"'):
            j = i + (2 if c == 'b' else 1)
            while j < n and src[j] != '"':
                j += 2 if src[j] == '\\' else 1
            j += 1
            toks.append(Tok('str', src[i:j], i)); i = j; continue
        if c == "'" or (c == 'b' and i + 1 < n and src[i + 1] == "'"):
            k = i + (1 if c == 'b' else 0)
            # char literal: 'x' or '\..'
            m = re.compile(r"'(\\x[0-9a-fA-F]{2}|\\u\{[0-9a-fA-F_]+\}|\\.|[^\\'])'").match(src, k)
            if m:
                toks.append(Tok('char', src[i:m.end()], i)); i = m.end(); continue
            m = IDENT.match(src, k + 1)
            if m:
                toks.append(Tok('life', src[i:m.end()], i)); i = m.end(); continue
        m = IDENT.match(src, i)
        if m:
            toks.append(Tok('ident', m.group(0), i)); i = m.end(); continue
        m = NUM.match(src, i)
        if m:
            # do not swallow a range operator: 0..n
            t = m.group(0)
            k = t.find('..')
            if k >= 0:
                t = t[:k]
            toks.append(Tok('num', t, i)); i += len(t); continue
        for p in ('->', '=>', '::', '..=', '..', '&&', '||', '==', '!=', '<=', '>=', '+=', '-=', '<<', '>>'):
            if src.startswith(p, i):
                toks.append(Tok('punct', p, i)); i += len(p); break
        else:
            toks.append(Tok('punct', c, i)); i += 1
    return toks


def code_tokens(toks):
    """indices of tokens that are code (not whitespace / comments)"""
    return [k for k, t in enumerate(toks) if t.kind not in ('ws', 'comment')]


@dataclass
class Loop:
    kind: str            # while / for / loop
    kw_pos: int          # offset of the keyword
    in_pos: int          # for `for`: offset just after ` in ` keyword, else -1
    body_open: int       # offset of `{`
    body_close: int      # offset of the matching `}`


@dataclass
class Func:
    name: str
    path: str            # module::[Type::]name   (trait decl: module::Trait::name)
    owner_kind: str      # free / impl / trait_impl / trait_decl
    item_pos: int        # offset where the item starts (first qualifier or `fn`)
    fn_pos: int          # offset of `fn`
    sig_end: int         # offset of body `{` or of `;`
    has_body: bool
    ret_start: int       # offset of first char of return type (after `-> `), -1 if none
    ret_end: int         # offset one past the return type
    body_open: int = -1
    body_close: int = -1
    loops: list = field(default_factory=list)
    self_kind: str = ''  # '', '&self', '&mut self', 'self'


@dataclass
class Block:
    kind: str            # impl / trait / mod
    key: str             # e.g. "impl GseDecapMemory for SimpleGseMemory", "trait GseDecapMemory", "impl Label"
    open: int
    close: int
    depth_idx: int = 0


class ParseError(Exception):
    pass


def _match_brace(toks, code, ci):
    """code[ci] is a `{` token index; return ci of the matching `}`"""
    depth = 0
    for cj in range(ci, len(code)):
        t = toks[code[cj]]
        if t.kind == 'punct':
            if t.text == '{':
                depth += 1
            elif t.text == '}':
                depth -= 1
                if depth == 0:
                    return cj
    raise ParseError('unbalanced braces at offset %d' % toks[code[ci]].pos)


def find_items(src, module):
    """returns (funcs, blocks).  `module` is the module path of the file, e.g. gse_decap::gse_decap_memory"""
    toks = lex(src)
    code = code_tokens(toks)
    funcs, blocks = [], []

    def T(ci):
        return toks[code[ci]]

    def parse_block(lo, hi, owner_kind, owner_name):
        ci = lo
        while ci < hi:
            t = T(ci)
            if t.kind == 'ident' and t.text in ('impl', 'trait') and _is_item_start(ci):
                # header up to `{`
                cj = ci
                pd = 0
                while cj < hi:
                    u = T(cj)
                    if u.kind == 'punct':
                        if u.text in '([':
                            pd += 1
                        elif u.text in ')]':
                            pd -= 1
                        elif u.text == '{' and pd == 0:
                            break
                        elif u.text == ';' and pd == 0:
                            break
                    cj += 1
                if cj >= hi or T(cj).text == ';':
                    ci = cj + 1
                    continue
                hdr = [T(k) for k in range(ci, cj)]
                ck = _match_brace(toks, code, cj)
                if t.text == 'trait':
                    name = hdr[1].text
                    key = 'trait ' + name
                    blocks.append(Block('trait', key, T(cj).pos, T(ck).pos))
                    parse_block(cj + 1, ck, 'trait_decl', name)
                else:
                    # impl<..> [Trait for] Type<..> [where ..]
                    words = _strip_generics(hdr[1:])
                    if 'for' in words:
                        k = words.index('for')
                        tr, ty = words[k - 1], words[k + 1]
                        key = 'impl %s for %s' % (tr, ty)
                        kind = 'trait_impl'
                    else:
                        ty = words[0]
                        key = 'impl ' + ty
                        kind = 'impl'
                    blocks.append(Block('impl', key, T(cj).pos, T(ck).pos))
                    parse_block(cj + 1, ck, kind, ty)
                ci = ck + 1
                continue
            if t.kind == 'ident' and t.text == 'fn' and ci + 1 < hi and T(ci + 1).kind == 'ident':
                ci = parse_fn(ci, hi, owner_kind, owner_name)
                continue
            if t.kind == 'punct' and t.text == '{':
                # some other braced item (struct, enum, match ...): skip it
                ci = _match_brace(toks, code, ci) + 1
                continue
            ci += 1

    def _is_item_start(ci):
        # `impl` inside a type position (impl Trait) does not occur in this crate; accept
        return True

    def _strip_generics(hdr):
        out, depth = [], 0
        for u in hdr:
            if u.kind == 'punct' and u.text == '<':
                depth += 1
            elif u.kind == 'punct' and u.text == '>':
                depth -= 1
            elif u.kind == 'punct' and u.text == '>>':
                depth -= 2
            elif depth == 0 and u.kind == 'ident':
                if u.text == 'where':
                    break
                out.append(u.text)
        return out

    def parse_fn(ci, hi, owner_kind, owner_name):
        name = T(ci + 1).text
        # item start: walk back over qualifiers
        cs = ci
        while cs - 1 >= 0:
            p = T(cs - 1)
            if p.kind == 'ident' and p.text in ('pub', 'const', 'unsafe', 'async', 'extern', 'crate', 'super', 'open', 'closed', 'proof', 'spec', 'exec'):
                cs -= 1
            elif p.kind == 'punct' and p.text in '()' and cs - 2 >= 0:
                # pub(crate)
                q = cs - 1
                while q >= 0 and not (T(q).kind == 'ident' and T(q).text == 'pub'):
                    if T(q).kind == 'punct' and T(q).text in '()' or T(q).kind == 'ident' and T(q).text in ('crate', 'super', 'in'):
                        q -= 1
                    else:
                        q = -1
                        break
                if q >= 0:
                    cs = q
                else:
                    break
            else:
                break
        # signature end
        cj, pd, ad = ci + 2, 0, 0
        ret_ci = -1
        where_ci = -1
        self_kind = ''
        while cj < hi:
            u = T(cj)
            if u.kind == 'punct':
                if u.text in '([':
                    pd += 1
                elif u.text in ')]':
                    pd -= 1
                elif u.text == '->' and pd == 0 and ret_ci < 0:
                    ret_ci = cj
                elif u.text in '{;' and pd == 0:
                    break
            elif u.kind == 'ident' and u.text == 'where' and pd == 0:
                where_ci = cj
            elif u.kind == 'ident' and u.text == 'self' and pd == 1 and not self_kind:
                prev = ''.join(T(k).text + ' ' for k in range(max(ci, cj - 2), cj)).strip()
                if prev.endswith('& mut'):
                    self_kind = '&mut self'
                elif prev.endswith('&'):
                    self_kind = '&self'
                else:
                    self_kind = 'self'
            cj += 1
        if cj >= hi:
            raise ParseError('no end of signature for fn %s' % name)
        has_body = T(cj).text == '{'
        ret_start = ret_end = -1
        if ret_ci >= 0:
            ret_start = T(ret_ci + 1).pos
            last = (where_ci if where_ci >= 0 else cj) - 1
            ret_end = T(last).end
        if owner_kind == 'free':
            path = '%s::%s' % (module, name)
        else:
            path = '%s::%s::%s' % (module, owner_name, name)
        f = Func(name, path, owner_kind, T(cs).pos, T(ci).pos, T(cj).pos, has_body, ret_start, ret_end, self_kind=self_kind)
        if has_body:
            ck = _match_brace(toks, code, cj)
            f.body_open, f.body_close = T(cj).pos, T(ck).pos
            f.loops = find_loops(cj + 1, ck)
            funcs.append(f)
            return ck + 1
        funcs.append(f)
        return cj + 1

    def find_loops(lo, hi):
        loops = []
        ci = lo
        while ci < hi:
            t = T(ci)
            if t.kind == 'ident' and t.text in ('while', 'for', 'loop'):
                # `for` in `for<'a>` HRTB does not occur; `impl X for Y` not inside bodies
                cj, pd = ci + 1, 0
                in_pos = -1
                while cj < hi:
                    u = T(cj)
                    if u.kind == 'punct':
                        if u.text in '([':
                            pd += 1
                        elif u.text in ')]':
                            pd -= 1
                        elif u.text == '{' and pd == 0:
                            break
                    elif u.kind == 'ident' and u.text == 'in' and pd == 0 and t.text == 'for' and in_pos < 0:
                        in_pos = T(cj + 1).pos
                    cj += 1
                if cj >= hi:
                    raise ParseError('loop without body at %d' % t.pos)
                ck = _match_brace(toks, code, cj)
                loops.append(Loop(t.text, t.pos, in_pos, T(cj).pos, T(ck).pos))
                # nested loops: descend
                ci += 1
                continue
            ci += 1
        loops.sort(key=lambda l: l.kw_pos)
        return loops

    parse_block(0, len(code), 'free', '')
    return funcs, blocks
