"""Parser for contracts/*.vspec.

Grammar (line oriented; a directive starts with '@' in column 0, everything up
to the next directive is its text):

  @fn <path>                      start a function entry
  @ret <name>                     name for the return slot  -> (name: T)
  @attr                           text = attributes placed before the item (e.g. #[verifier::rlimit(40)])
  @requires <id> [P1 P2 ..]       text = one boolean expression (no trailing comma)
  @ensures  <id> [P1 P2 ..]       idem
  @safe [P1 P2 ..]                properties to which implicit obligations of this fn (panics, overflow,
                                  bounds, callee preconditions, loop invariants, asserts) are attributed
  @predicates                     also emit every ensures clause as a named spec predicate cl_<fn>_<id>(vs_old, vs_new, <params>, res)
                                  (old(self) -> vs_old, final(self) -> vs_new) in the same impl block, for use by callers' contracts and lemmas
  @decreases                      text = decreases expression of the function (spec/recursive)
  @loop <k>                       text = `invariant ..., decreases ...` placed at the head of loop k
  @foriter <k> <name>             bind the ghost iterator of `for` loop k:  for x in <name>: expr
  @proof entry                    text = statements inserted (inside proof { }) at the start of the body
  @proof loop <k> start|end       idem at start / end of the body of loop k
  @proof after_loop <k>
  @proof end                      just before the closing brace of the body (unit functions only)
  @proof before <regex>           before the (unique) source line of the body matching regex
  @proof before_all <regex> / after_all <regex>   the same hint before / after EVERY matching source line of the body
  @proof match_scrutinee <regex>  on the (unique) line `match E {`: wraps E as { let v = E; proof {..} v } so the hint sits after E is evaluated
  @proof after <regex>            after the (unique) source line of the body matching regex (line must end a statement)
  @ghost before <regex> / after <regex> / entry     like @proof but text is inserted verbatim (for `let ghost`)
  @trait <module>::<Trait>        text = ghost items inserted at the start of the trait block
  @impl <module>::<impl key>      text = ghost items inserted at the start of the impl block
  @module <module>                text = ghost items appended inside the module's verus! block
  @lemma <name> [P1 P2 ..]        declares that proof fn <name> (found in some @module text) is an obligation of P*
  @end                            ends the current @fn entry (optional)
  # ...                           comment line (only directly after a directive line or between entries)
"""
import re
from dataclasses import dataclass, field


@dataclass
class Clause:
    kind: str            # requires / ensures
    cid: str
    props: list
    text: str
    src: str = ''        # vspec file:line


@dataclass
class FnSpec:
    path: str
    ret: str = ''
    attr: str = ''
    clauses: list = field(default_factory=list)
    safe: list = field(default_factory=list)
    decreases: str = ''
    loops: dict = field(default_factory=dict)      # k -> text
    foriter: dict = field(default_factory=dict)    # k -> name
    proofs: list = field(default_factory=list)     # (mode, anchor, text)   mode: proof|ghost
    predicates: bool = False
    src: str = ''


@dataclass
class Spec:
    fns: dict = field(default_factory=dict)
    traits: dict = field(default_factory=dict)     # key -> text
    impls: dict = field(default_factory=dict)
    modules: dict = field(default_factory=dict)    # module -> [text]
    lemmas: dict = field(default_factory=dict)     # name -> props


class SpecError(Exception):
    pass


def _props(s):
    m = re.search(r'\[([^\]]*)\]', s)
    if not m:
        return [], s.strip()
    return m.group(1).split(), (s[:m.start()] + s[m.end():]).strip()


def parse_files(paths):
    spec = Spec()
    for p in paths:
        _parse(open(p).read(), p, spec)
    return spec


def _parse(text, fname, spec):
    lines = text.split('\n')
    # split into (directive line, lineno, body lines)
    chunks = []
    cur = None
    for no, l in enumerate(lines, 1):
        if l.startswith('@'):
            cur = [l, no, []]
            chunks.append(cur)
        elif cur is None:
            if l.strip() and not (l.startswith('# ') or l == '#'):
                raise SpecError('%s:%d: text before first directive' % (fname, no))
        else:
            cur[2].append(l)
    fn = None
    for d, no, body in chunks:
        # strip comment lines starting with '#' in column 0
        body = [b for b in body if not (b.startswith('# ') or b == '#')]
        txt = '\n'.join(body).strip('\n')
        parts = d.split(None, 1)
        kw = parts[0]
        rest = parts[1] if len(parts) > 1 else ''
        where = '%s:%d' % (fname, no)
        if kw == '@fn':
            fn = FnSpec(rest.strip(), src=where)
            if fn.path in spec.fns:
                raise SpecError('%s: duplicate @fn %s' % (where, fn.path))
            spec.fns[fn.path] = fn
        elif kw == '@end':
            fn = None
        elif kw in ('@trait', '@impl', '@module', '@lemma'):
            fn = None
            if kw == '@trait':
                spec.traits[rest.strip()] = spec.traits.get(rest.strip(), '') + txt + '\n'
            elif kw == '@impl':
                spec.impls[rest.strip()] = spec.impls.get(rest.strip(), '') + txt + '\n'
            elif kw == '@module':
                spec.modules.setdefault(rest.strip(), []).append(txt)
            else:
                props, name = _props(rest)
                spec.lemmas[name] = props
        else:
            if fn is None:
                raise SpecError('%s: %s outside @fn' % (where, kw))
            if kw == '@ret':
                fn.ret = rest.strip()
            elif kw == '@attr':
                fn.attr += txt + '\n'
            elif kw in ('@requires', '@ensures'):
                props, cid = _props(rest)
                if not txt.strip():
                    raise SpecError('%s: empty clause' % where)
                fn.clauses.append(Clause(kw[1:], cid, props, txt, where))
            elif kw == '@safe':
                props, _ = _props(rest)
                fn.safe = props
            elif kw == '@predicates':
                fn.predicates = True
            elif kw == '@decreases':
                fn.decreases = txt
            elif kw == '@loop':
                fn.loops[int(rest.strip())] = txt
            elif kw == '@foriter':
                k, name = rest.split()
                fn.foriter[int(k)] = name
            elif kw in ('@proof', '@ghost'):
                fn.proofs.append((kw[1:], rest.strip(), txt))
            else:
                raise SpecError('%s: unknown directive %s' % (where, kw))
    return spec
