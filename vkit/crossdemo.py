#!/usr/bin/env python3
"""cross matrix: for every seeded change, which demonstration tests (of all properties) fail on it"""
import concurrent.futures as cf, glob, json, os, re, shutil, subprocess, sys, tempfile
SEEDED='/verif/seeded'
names=sorted(os.listdir(SEEDED))
def base():
    b='/tmp/w0/cross/base'
    if os.path.exists(b): shutil.rmtree(b)
    shutil.copytree('/repo', b, ignore=shutil.ignore_patterns('target', '.git'))
    for n in names:
        d=os.path.join(SEEDED,n,'demo.rs')
        if os.path.exists(d): shutil.copy(d, os.path.join(b,'tests','demo_%s.rs'%n))
    return b
def run_one(args):
    n, slot = args
    w='/tmp/w0/cross/w%d'%slot
    repo=os.path.join(w,'repo')
    if os.path.exists(repo): shutil.rmtree(repo)
    shutil.copytree('/tmp/w0/cross/base', repo)
    for root, _d, files in os.walk(os.path.join(repo, 'src')):
        for f in files:
            os.utime(os.path.join(root, f), None)   # fresh mtimes: cargo must never reuse a library built from another tree
    if n != 'CLEAN':
        p=subprocess.run(['patch','-p1','-s','-i',os.path.join(SEEDED,n,'patch.diff')],cwd=repo,capture_output=True,text=True)
        if p.returncode!=0: return n, None, 'patch failed'
    env=dict(os.environ, CARGO_NET_OFFLINE='true', CARGO_TARGET_DIR=os.path.join(w,'target'))
    q=subprocess.run(['cargo','test','--offline','--no-fail-fast','--tests','-j','2'],cwd=repo,env=env,capture_output=True,text=True)
    out=q.stdout+q.stderr
    failed=sorted(set(re.findall(r"test failed, to rerun pass `--test (demo_\S+)`", out)))
    comp=re.findall(r'error(?:\[E\d+\])?: .*', out)[:3] if 'could not compile' in out else []
    return n, failed, comp
def main():
    base()
    todo=['CLEAN']+names
    J=int(sys.argv[1]) if len(sys.argv)>1 else 6
    res={}
    import queue
    slots=queue.Queue()
    for i in range(J): slots.put(i)
    def job(n):
        s=slots.get()
        try: return run_one((n,s))
        finally: slots.put(s)
    with cf.ThreadPoolExecutor(J) as ex:
        for n, failed, comp in ex.map(job, todo):
            res[n]={'failed':failed,'compile':comp}
            print(n, failed if failed is None or len(failed)<12 else '%d demos fail'%len(failed), comp, flush=True)
            json.dump(res,open('/tmp/w0/cross/matrix.json','w'),indent=1)
main()
