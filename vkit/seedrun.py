#!/usr/bin/env python3
"""Developer tool: run the checks against seeded changes, each in its own scratch copy of /repo (never in /repo itself).
   seedrun.py <dir with <id>/{a,b}/patch.diff or seeded/<name>/patch.diff> [--props C01,C02] [-j N]
Prints one line per (change, property): rc and failed obligations."""
import concurrent.futures as cf, glob, json, os, shutil, subprocess, sys, tempfile
VERIF = os.path.dirname(os.path.dirname(os.path.abspath(__file__)))

def run_one(patch, props):
    tmp = tempfile.mkdtemp(prefix='seedrun-')
    try:
        repo = os.path.join(tmp, 'repo')
        shutil.copytree('/repo', repo, ignore=shutil.ignore_patterns('target', '.git'))
        p = subprocess.run(['patch', '-p1', '-s', '-i', os.path.abspath(patch)], cwd=repo, capture_output=True, text=True)
        if p.returncode != 0:
            return [(patch, '-', 'patch does not apply: ' + (p.stdout + p.stderr)[:200])]
        res = []
        for pid in props:
            env = dict(os.environ, VERIF_REPO=repo, VERIF_EVIDENCE_DIR=os.path.join(tmp, 'ev'), VERIF_REPLAY_DIR=os.path.join(tmp, 'rp'))
            os.makedirs(env['VERIF_EVIDENCE_DIR'], exist_ok=True)
            q = subprocess.run([os.path.join(VERIF, 'check'), pid], env=env, capture_output=True, text=True)
            obl = [l.split('failed obligation: ')[1].split('  (')[0] for l in q.stdout.split('\n') if 'failed obligation: ' in l]
            und = [l for l in q.stdout.split('\n') if 'UNDECIDED' in l]
            wit = 'no-failing-input-found' not in q.stdout if q.returncode == 1 else None
            res.append((patch, pid, 'rc=%d %s%s%s' % (q.returncode, ';'.join(obl)[:300], (' ' + und[0][:200]) if und else '', ' [witness]' if wit else '')))
        return res
    finally:
        shutil.rmtree(tmp, ignore_errors=True)

def main():
    root = sys.argv[1]
    props = None
    j = 4
    for k, a in enumerate(sys.argv):
        if a == '--props': props = sys.argv[k + 1].split(',')
        if a == '-j': j = int(sys.argv[k + 1])
    jobs = []
    for patch in sorted(glob.glob(os.path.join(root, '**', 'patch.diff'), recursive=True)):
        d = os.path.dirname(patch)
        pid = None
        meta = os.path.join(d, 'meta.json')
        if os.path.exists(meta):
            pid = json.load(open(meta)).get('property')
        if not pid:
            for part in d.split('/'):
                if len(part) == 3 and part[0] == 'C' and part[1:].isdigit(): pid = part
        jobs.append((patch, props or [pid]))
    with cf.ThreadPoolExecutor(j) as ex:
        for res in ex.map(lambda a: run_one(*a), jobs):
            for patch, pid, msg in res:
                print('%-40s %-4s %s' % (os.path.relpath(os.path.dirname(patch), root), pid, msg), flush=True)

if __name__ == '__main__':
    main()
