#!/usr/bin/env python3
"""Regenerates MANIFEST.json from vkit/manifest_src.json (claims, level texts) -- keeps the file schema-valid."""
import json, os
HERE = os.path.dirname(os.path.abspath(__file__)); VERIF = os.path.dirname(HERE)
src = json.load(open(os.path.join(HERE, 'manifest_src.json')))
titles = {}
for l in open(os.path.join(VERIF, 'properties.jsonl')):
    p = json.loads(l); titles[p['id']] = p['title']
checks = []
for pid in sorted(src['claimed']):
    c = src['claimed'][pid]
    checks.append({
        'property_id': pid,
        'quick_cmd': './check %s --tier quick' % pid,
        'thorough_cmd': './check %s --tier thorough' % pid,
        'evidence_file': '/verif/evidence/%s.json' % pid,
        'replay_cmd_template': './check %s --replay {path}' % pid,
        'engine': c.get('engine', 'verus-contracts'),
        'level_claimed': {'category': c.get('category', 'proof'), 'text': c['text'], 'design_ref': c.get('design_ref', 'DESIGN.md section 6')},
        'level_note': c['note'],
        'technique': c.get('technique', 'contract-based deductive verification (Verus) of the real code'),
    })
na = [{'property_id': pid, 'reason': r} for pid, r in sorted(src['not_applicable'].items())]
m = {
    'version': 1,
    'setup_cmd': './check --setup',
    'hooks': {
        'guard': 'viveris_dvb_gse_rust_verif',
        'enable': 'none needed: contracts are spliced into a per-run annotated copy of /repo/src (vkit/annotate.py); /repo carries no hooks',
        'baseline_off_cmd': 'cd /repo && cargo test --workspace --no-fail-fast --offline',
        'source_commits': [],
        'add_only': True,
    },
    'engines': src['engines'],
    'checks': checks,
    'notes': src['notes'],
    'not_applicable': na,
}
json.dump(m, open(os.path.join(VERIF, 'MANIFEST.json'), 'w'), indent=1)
print('MANIFEST.json: %d checks, %d not_applicable' % (len(checks), len(na)))
