#!/usr/bin/env python3
"""Translation validation of the rewrite rules (thorough tier): the rewritten sources (R1-R6, R10, R11; without the macro wrapper,
shims as ordinary functions) must still pass the repository's own test suite.  R7/R8 add specification only and are not applied."""
import os, re, shutil, subprocess, sys
HERE = os.path.dirname(os.path.abspath(__file__)); VERIF = os.path.dirname(HERE)
sys.path.insert(0, HERE)
import annotate


def run(repo, scratch):
    dst = os.path.join(scratch, 'tv')
    if os.path.exists(dst):
        shutil.rmtree(dst)
    shutil.copytree(repo, dst, ignore=shutil.ignore_patterns('target', '.git'))
    log = []
    n_files = 0
    for dp, dn, fn in os.walk(os.path.join(dst, 'src')):
        for f in fn:
            if not f.endswith('.rs'):
                continue
            p = os.path.join(dp, f)
            rel = os.path.relpath(p, os.path.join(dst, 'src'))
            src = open(p).read()
            if f == 'tests.rs':
                continue
            new = annotate.rewrite(src, rel, log, skip=('R7',))
            head, body, _ = annotate.split_head(new)
            if rel == 'lib.rs':
                new = head + 'mod vshim;\n' + body
            else:
                new = head + '#[allow(unused_imports)]\nuse crate::vshim::*;\n' + body
            open(p, 'w').write(new)
            n_files += 1
    shutil.copy(os.path.join(VERIF, 'ghost', 'vshim_plain.rs.txt'), os.path.join(dst, 'src', 'vshim.rs'))
    env = dict(os.environ, CARGO_NET_OFFLINE='true', CARGO_TARGET_DIR=os.path.join(scratch, 'tv-target'))
    p = subprocess.run(['cargo', 'test', '--offline', '--no-fail-fast'], cwd=dst, env=env, stdout=subprocess.PIPE, stderr=subprocess.STDOUT, text=True)
    passed = sum(int(m.group(1)) for m in re.finditer(r'test result: \w+\. (\d+) passed', p.stdout))
    failed = sum(int(m.group(1)) for m in re.finditer(r'test result: \w+\. \d+ passed; (\d+) failed', p.stdout))
    shutil.rmtree(os.path.join(scratch, 'tv-target'), ignore_errors=True)
    rules = sorted({r['rule'] for r in log})
    return {'files_rewritten': n_files, 'rewrite_applications': len(log), 'rules': rules, 'tests_passed': passed, 'tests_failed': failed,
            'ok': p.returncode == 0 and failed == 0 and passed >= 276, 'tail': p.stdout[-600:] if p.returncode != 0 else ''}


if __name__ == '__main__':
    import tempfile
    sc = tempfile.mkdtemp(prefix='tv-')
    try:
        print(run('/repo', sc))
    finally:
        shutil.rmtree(sc, ignore_errors=True)
