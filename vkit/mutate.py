#!/usr/bin/env python3
"""Developer tool: mechanical mutation analysis of the whole framework (not part of any registered check).

  mutate.py gen                 enumerate mutants of /repo/src (non-test code) -> <work>/mutants.json
  mutate.py tests [-j N]        run the crate's own test suite on every mutant (scratch copies); keep the survivors
  mutate.py verify [-j N]       annotate + Verus (whole crate, one seed) on every survivor; report which obligations fail
  mutate.py report

Everything runs in scratch copies under <work> (default /tmp/w0/mut); /repo is never touched.
Operators: relational (< <= > >= == !=), && / ||, + / -, integer literal +-1, named constant swap, removal of a
`self.x = ..;` / `x += ..;` statement, `return Err(..)` arm guard negation is NOT attempted (too noisy)."""
import concurrent.futures as cf, glob, json, os, queue, re, shutil, subprocess, sys, time
VERIF = os.path.dirname(os.path.dirname(os.path.abspath(__file__)))
sys.path.insert(0, os.path.join(VERIF, 'vkit'))
WORK = os.environ.get('MUT_WORK', '/tmp/w0/mut')
FILES = ['src/crc.rs', 'src/gse_decap/mod.rs', 'src/gse_encap/mod.rs', 'src/header_extension/mod.rs', 'src/label/mod.rs',
         'src/utils/mod.rs', 'src/gse_decap/gse_decap_memory/mod.rs', 'src/gse_standard.rs']

REL = [(r' < ', ' <= '), (r' <= ', ' < '), (r' > ', ' >= '), (r' >= ', ' > '), (r' == ', ' != '), (r' != ', ' == '), (r' && ', ' || '), (r' \|\| ', ' && ')]
ARI = [(r' \+ ', ' - '), (r' - ', ' + ')]


def code_lines(path):
    """(lineno, text) of lines that are executable code: not comments, attributes, use/const declarations of tables, doc"""
    out = []
    src = open(path).read().split('\n')
    in_tab = False
    for no, l in enumerate(src, 1):
        s = l.strip()
        if not s or s.startswith('//') or s.startswith('#[') or s.startswith('use ') or s.startswith('mod ') or s.startswith('pub mod '):
            continue
        if 'CRC_TAB' in l and '=' in l and '[' in l:
            in_tab = True
        if in_tab:
            if '];' in l:
                in_tab = False
            continue
        if s.startswith('0x') and s.endswith(','):
            continue
        out.append((no, l))
    return out


def gen():
    muts = []
    for rel in FILES:
        path = os.path.join('/repo', rel)
        for no, l in code_lines(path):
            code = l.split('//')[0]
            if 'fn ' in code and '(' in code and ('pub ' in code or code.strip().startswith('fn ')):
                continue
            if 'to_str' in code or '=> "' in code or 'panic!' in code:
                continue
            for pat, rep in REL + ARI:
                for m in re.finditer(pat, code):
                    if pat in (r' < ', r' > ') and ('->' in code or 'impl<' in code or 'Vec<' in code or 'Result<' in code or 'Option<' in code or 'Box<' in code):
                        continue
                    if pat == r' - ' and '->' in code:
                        continue
                    new = code[:m.start()] + rep + code[m.end():] + l[len(code):]
                    muts.append({'file': rel, 'line': no, 'op': '%s->%s' % (pat.strip().replace('\\', ''), rep.strip()), 'old': l, 'new': new})
            # integer literals +-1 (decimal, small)
            for m in re.finditer(r'(?<![\w.])(\d+)(?![\w.])', code):
                v = int(m.group(1))
                if v > 64 or 'const ' in code and 'usize' not in code:
                    continue
                for d in (v + 1, v - 1):
                    if d < 0:
                        continue
                    new = code[:m.start()] + str(d) + code[m.end():] + l[len(code):]
                    muts.append({'file': rel, 'line': no, 'op': 'lit %d->%d' % (v, d), 'old': l, 'new': new})
            # statement removal
            if re.match(r'^\s*(self\.\w+(\.\w+)? (=|\+=|-=) .*;|\w+ (\+=|-=) .*;)\s*$', code):
                muts.append({'file': rel, 'line': no, 'op': 'delete', 'old': l, 'new': re.match(r'^\s*', l).group(0) + '// removed'})
            # condition negation, boolean literals, deletion of a call statement on self (round 2 operators)
            mneg = re.match(r'^(\s*(?:\} else )?if )(?!let )(.+)( \{\s*)$', code)
            if mneg:
                muts.append({'file': rel, 'line': no, 'op': 'negate', 'old': l, 'new': mneg.group(1) + '!(' + mneg.group(2) + ')' + mneg.group(3) + l[len(code):]})
            for a, b in [('true', 'false'), ('false', 'true')]:
                for m in re.finditer(r'\b%s\b' % a, code):
                    muts.append({'file': rel, 'line': no, 'op': '%s->%s' % (a, b), 'old': l, 'new': code[:m.start()] + b + code[m.end():] + l[len(code):]})
            if re.match(r'^\s*self\.[\w.]+\(.*\)(\.unwrap\(\))?;\s*$', code):
                muts.append({'file': rel, 'line': no, 'op': 'delete-call', 'old': l, 'new': re.match(r'^\s*', l).group(0) + '// removed'})
            # constant swaps
            for a, b in [('FRAG_ID_LEN', 'TOTAL_LENGTH_LEN'), ('PROTOCOL_LEN', 'FRAG_ID_LEN'), ('GSE_LEN_MAX', 'TOTAL_LEN_MAX'), ('CRC_LEN', 'PROTOCOL_LEN'),
                         ('label_len', 'pdu_len'), ('pkt_len', 'buffer_len'), ('gse_len', 'pkt_len')]:
                for m in re.finditer(r'\b%s\b' % a, code):
                    if 'let ' + a in code or 'const ' in code:
                        continue
                    new = code[:m.start()] + b + code[m.end():] + l[len(code):]
                    muts.append({'file': rel, 'line': no, 'op': '%s->%s' % (a, b), 'old': l, 'new': new})
    # dedupe; ids of an earlier run are kept (new operators are appended)
    prev = []
    pp = os.path.join(WORK, 'mutants.json')
    if os.path.exists(pp):
        prev = json.load(open(pp))
    seen = set((m['file'], m['line'], m['new']) for m in prev); out = list(prev)
    for m in muts:
        k = (m['file'], m['line'], m['new'])
        if k in seen or m['new'] == m['old']:
            continue
        seen.add(k); m['id'] = len(out); out.append(m)
    os.makedirs(WORK, exist_ok=True)
    json.dump(out, open(os.path.join(WORK, 'mutants.json'), 'w'), indent=1)
    print(len(out), 'mutants')


def apply(m, repo):
    p = os.path.join(repo, m['file'])
    lines = open(p).read().split('\n')
    assert lines[m['line'] - 1] == m['old'], (m, lines[m['line'] - 1])
    lines[m['line'] - 1] = m['new']
    open(p, 'w').write('\n'.join(lines))


def unapply(m, repo):
    p = os.path.join(repo, m['file'])
    lines = open(p).read().split('\n')
    lines[m['line'] - 1] = m['old']
    open(p, 'w').write('\n'.join(lines))


def pool(J, fn, items):
    slots = queue.Queue()
    for i in range(J):
        slots.put(i)

    def job(it):
        s = slots.get()
        try:
            return fn(it, s)
        finally:
            slots.put(s)
    with cf.ThreadPoolExecutor(J) as ex:
        for r in ex.map(job, items):
            yield r


def tests(J):
    muts = json.load(open(os.path.join(WORK, 'mutants.json')))
    resp = os.path.join(WORK, 'tests.json')
    res = json.load(open(resp)) if os.path.exists(resp) else {}
    for s in range(J):
        w = os.path.join(WORK, 't%d' % s)
        if not os.path.exists(w):
            shutil.copytree('/repo', os.path.join(w, 'repo'), ignore=shutil.ignore_patterns('target', '.git'))
            env = dict(os.environ, CARGO_NET_OFFLINE='true', CARGO_TARGET_DIR=os.path.join(w, 'target'))
            subprocess.run(['cargo', 'test', '--offline', '--no-run'], cwd=os.path.join(w, 'repo'), env=env, capture_output=True)

    def one(m, s):
        w = os.path.join(WORK, 't%d' % s); repo = os.path.join(w, 'repo')
        env = dict(os.environ, CARGO_NET_OFFLINE='true', CARGO_TARGET_DIR=os.path.join(w, 'target'))
        apply(m, repo)
        try:
            q = subprocess.run(['cargo', 'test', '--offline', '-j', '2'], cwd=repo, env=env, capture_output=True, text=True, timeout=600)
            out = q.stdout + q.stderr
            if 'could not compile' in out or 'error[' in out or 'error:' in out and 'test result' not in out:
                st = 'compile'
            elif q.returncode != 0:
                st = 'killed'
            else:
                st = 'survived'
        except subprocess.TimeoutExpired:
            st = 'timeout'
        finally:
            unapply(m, repo)
        return m['id'], st
    todo = [m for m in muts if str(m['id']) not in res]
    n = 0
    for mid, st in pool(J, one, todo):
        res[str(mid)] = st; n += 1
        if n % 20 == 0:
            json.dump(res, open(resp, 'w')); print(n, '/', len(todo), {k: list(res.values()).count(k) for k in set(res.values())}, flush=True)
    json.dump(res, open(resp, 'w'))
    print({k: list(res.values()).count(k) for k in set(res.values())})


def verify(J):
    import annotate, verus_run, glob as g
    muts = {m['id']: m for m in json.load(open(os.path.join(WORK, 'mutants.json')))}
    tres = json.load(open(os.path.join(WORK, 'tests.json')))
    resp = os.path.join(WORK, 'verify.json')
    res = json.load(open(resp)) if os.path.exists(resp) else {}
    specs = sorted(g.glob(os.path.join(VERIF, 'contracts', '*.vspec')))
    ghost = {os.path.basename(p)[:-3]: p for p in sorted(g.glob(os.path.join(VERIF, 'ghost', '*.rs'))) if os.path.basename(p) != 'vshim.rs'}

    def one(mid, s):
        m = muts[mid]
        w = os.path.join(WORK, 'v%d' % s); repo = os.path.join(w, 'repo'); crate = os.path.join(w, 'crate')
        shutil.rmtree(w, ignore_errors=True)
        shutil.copytree('/repo/src', os.path.join(repo, 'src'))
        apply(m, repo)
        try:
            meta = annotate.annotate(os.path.join(repo, 'src'), crate, specs, os.path.join(VERIF, 'ghost', 'vshim.rs'), ghost)
        except Exception as e:  # lost anchor etc.
            return mid, {'status': 'anchor', 'msg': str(e)[:200]}
        vr = verus_run.run_verus(crate, [], rlimit=60, log_path=os.path.join(w, 'verus.log'))
        att = verus_run.Attribution(crate, meta)
        recs = [att.classify(d) for d in vr['diags']]
        viol = [r for r in recs if r['kind'] == 'violation']
        tool = [r for r in recs if r['kind'] == 'tool']
        und = [r for r in recs if r['kind'] == 'undecided']
        if tool or vr['summary'] is None:
            return mid, {'status': 'tool', 'msg': (tool[0]['message'] if tool else vr['stderr_tail'][-200:])[:200]}
        names = sorted({('%s/%s' % (r.get('fn'), r.get('cid'))) if r.get('target') == 'clause' else ('%s/%s' % (r.get('fn') or r.get('lemma'), (r.get('target') or '').upper())) for r in viol})
        props = sorted({p for r in viol for p in r.get('props', [])})
        if viol:
            return mid, {'status': 'detected', 'obligations': names[:8], 'props': props}
        if und:
            return mid, {'status': 'undecided'}
        return mid, {'status': 'SURVIVED'}
    todo = [int(k) for k, v in tres.items() if v == 'survived' and k not in res]
    n = 0
    for mid, r in pool(J, one, todo):
        res[str(mid)] = r; n += 1
        m = muts[mid]
        print(mid, m['file'], m['line'], m['op'], r['status'], ';'.join(r.get('obligations', []))[:150], r.get('msg', '')[:80], flush=True)
        if n % 10 == 0:
            json.dump(res, open(resp, 'w'))
    json.dump(res, open(resp, 'w'))


def report():
    muts = {m['id']: m for m in json.load(open(os.path.join(WORK, 'mutants.json')))}
    tres = json.load(open(os.path.join(WORK, 'tests.json')))
    vres = json.load(open(os.path.join(WORK, 'verify.json'))) if os.path.exists(os.path.join(WORK, 'verify.json')) else {}
    from collections import Counter
    print('tests:', Counter(tres.values()))
    print('verify:', Counter(v['status'] for v in vres.values()))
    for k, v in sorted(vres.items(), key=lambda kv: int(kv[0])):
        if v['status'] in ('SURVIVED', 'undecided', 'tool', 'anchor'):
            m = muts[int(k)]
            print('%s %s %s:%d [%s]\n    - %s\n    + %s  %s' % (v['status'], k, m['file'], m['line'], m['op'], m['old'].strip(), m['new'].strip(), v.get('msg', '')[:100]))


if __name__ == '__main__':
    J = 6
    if '-j' in sys.argv:
        J = int(sys.argv[sys.argv.index('-j') + 1])
    cmd = sys.argv[1]
    {'gen': gen, 'tests': lambda: tests(J), 'verify': lambda: verify(J), 'report': report}[cmd]()
