#!/usr/bin/env python3
"""Annotator: /repo/src  ->  <out>/src  (a Verus crate whose exec code is the code that runs).

Steps (DESIGN.md 3.1):
  1. copy every src/**/*.rs except tests.rs,
  2. apply the line-preserving rewrite rules R1..R8 (each application logged),
  3. wrap each file body in `verus! { .. }`,
  4. splice the contracts of contracts/*.vspec by function path / loop ordinal,
  5. self-check: removing every spliced span gives back rewrite(original) byte for byte,
  6. write <out>/map.json : generated line -> (function, original line, clause id).

Exit status: 0 ok, 2 anchor lost / parse problem (never a verification verdict).
"""
import hashlib
import json
import os
import re
import sys

sys.path.insert(0, os.path.dirname(os.path.abspath(__file__)))
import rustlex  # noqa: E402
import vspec    # noqa: E402

HERE = os.path.dirname(os.path.abspath(__file__))
VERIF = os.path.dirname(HERE)

STRUCTURAL_TYPES = ('label::Label', 'label::LabelType', 'pkt_type::PktType')


class AnchorLost(Exception):
    pass


def expand_props(fn_path, props):
    """tag closure rules (DESIGN.md 3.2).
    1. C16 (recovery from any reachable receiver state) is carried by every receiver-side clause of the round trips C01 / C02,
       because its lemma is those clauses applied to an arbitrary state satisfying inv(); C20 likewise (its decapsulator conjunct).
    2. C13 covers fragmented PDUs: once encap_ext has written the first fragment, the continuation runs through encap_frag,
       decap_intermediate / decap_end, the reassembly memory and the CRC, so their C02 clauses carry C13 as well."""
    out = list(props)
    if fn_path.startswith('gse_decap') and ('C01' in out or 'C02' in out):
        for extra in ('C16', 'C20'):
            if extra not in out:
                out.append(extra)
    if 'C02' in out and 'C13' not in out and (fn_path.startswith(('gse_encap::Encapsulator::encap_frag', 'gse_decap::Decapsulator::decap_intermediate',
            'gse_decap::Decapsulator::decap_end', 'gse_decap::Decapsulator::decap', 'gse_decap::gse_decap_memory::', 'crc::'))):
        out.append('C13')
    return out


# --------------------------------------------------------------------------
# rewrite rules (all keep the number of lines)
# --------------------------------------------------------------------------
def rewrite(src, relpath, log, skip=()):
    def sub(rule, pat, repl, s, flags=0):
        def f(m):
            ls = s.rfind('\n', 0, m.start()) + 1
            if s[ls:m.start()].lstrip().startswith('//') or s[ls:].lstrip().startswith('//'):
                return m.group(0)          # inside a comment / doc comment: leave the text alone
            new = m.expand(repl) if isinstance(repl, str) else repl(m)
            line = s.count('\n', 0, m.start()) + 1
            log.append({'rule': rule, 'file': relpath, 'line': line,
                        'before': m.group(0).replace('\n', '\\n')[:80], 'after': new.replace('\n', '\\n')[:80]})
            assert new.count('\n') == m.group(0).count('\n'), (rule, m.group(0))
            return new
        return re.sub(pat, f, s, flags=flags)

    s = src
    s = sub('R1', r'\.to_be_bytes\(\)', '.vshim_to_be_bytes()', s)
    s = sub('R2', r'\b(u8|u16|u32)::from_be_bytes\(', r'vshim_\1_from_be_bytes(', s)
    s = sub('R2', r'\bu8::from_be\(', 'vshim_u8_from_be(', s)
    s = sub('R3', r'\.try_into\(\)(\s*)\.unwrap\(\)', r'.vshim_try_into_unwrap()\1', s)
    s = sub('R3', r'\.try_into\(\)\.expect\("unreachable"\)', '.vshim_try_into_unwrap()', s)
    # R11  range-indexed writes through a Box<[u8]>: make the reborrow that auto-deref performs explicit and let-bound
    #      (Verus has no specification for IndexMut<Range..> through Box<[T]>; the same statement on a named &mut [u8] verifies)
    if relpath == 'gse_decap/mod.rs':
        s = sub('R11', r'(?m)^(\s*)([a-z_]+)\[([^\]\n]*\.\.[^\]\n]*)\]\.copy_from_slice\(([^\n]*)\);$',
                r'\1{ let vshim_w: &mut [u8] = &mut *\2; vshim_w[\3].copy_from_slice(\4); }', s)
        s = sub('R11', r'(?m)^(\s*)let ([a-z_]+) = &mut ([a-z_]+)\[([^\]\n]*\.\.[^\]\n]*)\];$',
                r'\1let vshim_w_\2: &mut [u8] = &mut *\3; let \2 = &mut vshim_w_\2[\4];', s)
    # R10  slice.into() (only use in the crate: &[u8] -> Vec<u8>) -> shim with spec r@ == self@ (the shim is only implemented for [u8])
    s = sub('R10', r'\b([a-z_]+)\.into\(\)', r'\1.vshim_into_vec()', s)
    # R12  Vec::with_capacity(n) -> shim whose spec adds the documented lower bound on the capacity
    s = sub('R12', r'\bVec::with_capacity\(', 'vshim_with_capacity(', s)
    # R4  X.iter().fold(I, |a, x| { BODY })   ->  while loop with the same BODY (lines preserved)
    s = rewrite_fold(s, relpath, log)
    # R5  anonymous parameters
    cnt = [0]

    def anon(m):
        cnt[0] += 1
        return '%s_anon%d%s' % (m.group(1), cnt[0] - 1, m.group(2))
    s = sub('R5', r'(fn [^\n]*[(,]\s*)_(\s*:)', anon, s)
    # R6
    s = sub('R6', r'pub trait GseDecapMemory \{', 'pub trait GseDecapMemory: Sized {', s)
    # R7  CRC table: exec const with an ensures against a spec copy generated from the same tokens
    if relpath == 'crc.rs' and 'R7' not in skip:
        m = re.search(r'const CRC_TAB: &\[u32\] = &\[(.*?)\];', s, re.S)
        if not m:
            raise AnchorLost('R7: CRC_TAB literal not found in crc.rs')
        s = sub('R7', r'const CRC_TAB: &\[u32\] = &\[', "exec const CRC_TAB: &'static [u32] ensures CRC_TAB@ =~= tab_spec() { &[", s)
        end = s.index('];', s.index('exec const CRC_TAB'))
        s = s[:end] + '] }' + s[end + 2:]
        log.append({'rule': 'R7', 'file': relpath, 'line': s.count('\n', 0, end) + 1, 'before': '];', 'after': '] }'})
    # R8  (no source change) derived == on Label / LabelType / PktType is structural: stated by `unsafe impl Structural` items
    #     appended to vshim.rs (see annotate()); the derive lines stay as they are
    lines = s.split('\n')
    s = '\n'.join(lines)
    assert s.count('\n') == src.count('\n')
    return s


def rewrite_fold(s, relpath, log):
    pat = re.compile(r'([A-Za-z_][A-Za-z0-9_]*)\.iter\(\)\.fold\(\s*([A-Za-z_][A-Za-z0-9_]*)\s*,\s*\|\s*([a-z_]+)\s*,\s*([a-z_]+)\s*\|\s*\{')
    while True:
        m = pat.search(s)
        if not m:
            return s
        coll, init, acc, elt = m.groups()
        # find the closing `})` of the closure body + fold call
        depth, i = 1, m.end()
        while depth:
            c = s[i]
            if c == '{':
                depth += 1
            elif c == '}':
                depth -= 1
            i += 1
        close_brace = i - 1
        j = i
        while s[j].isspace():
            j += 1
        if s[j] != ')':
            raise AnchorLost('R4: unexpected shape of fold call in %s' % relpath)
        head = ('{ let mut %s = %s; let mut vshim_i: usize = 0; while vshim_i < %s.len() /*R4*/ { let %s = &%s[vshim_i]; %s = {'
                % (acc, init, coll, elt, coll, acc))
        tail = '}; vshim_i += 1; } %s }' % acc
        line = s.count('\n', 0, m.start()) + 1
        log.append({'rule': 'R4', 'file': relpath, 'line': line, 'before': m.group(0), 'after': head})
        s = s[:m.start()] + head + s[m.end():close_brace] + tail + s[j + 1:]


def tab_spec_from(src_rewritten):
    m = re.search(r"exec const CRC_TAB[^{]*\{ &\[(.*?)\] \}", src_rewritten, re.S)
    body = m.group(1)
    entries = [e.strip() for e in body.replace('\n', ' ').split(',') if e.strip()]
    return 'pub closed spec fn tab_spec() -> Seq<u32> { seq![%s] }\n' % ', '.join(e + 'u32' for e in entries), len(entries)


def probe_lemmas(text, lemmas):
    """insert `assert(false);` at the start of the body of every registered lemma found in ghost text (vacuity probe)"""
    toks = rustlex.lex(text)
    code = rustlex.code_tokens(toks)
    ins = []
    names = []
    for ci in range(len(code) - 2):
        t = toks[code[ci]]
        if t.kind == 'ident' and t.text == 'fn' and toks[code[ci + 1]].kind == 'ident' and toks[code[ci + 1]].text in lemmas \
                and ci > 0 and toks[code[ci - 1]].text == 'proof':
            name = toks[code[ci + 1]].text
            pd = 0
            cj = ci + 2
            found = None
            while cj < len(code):
                u = toks[code[cj]]
                if u.kind == 'punct':
                    if u.text in '([':
                        pd += 1
                    elif u.text in ')]':
                        pd -= 1
                    elif u.text == '{' and pd == 0:
                        prev = toks[code[cj - 1]]
                        if prev.kind == 'ident' and prev.text[0].isupper() and '\n' not in text[prev.end:u.pos]:
                            # struct / variant pattern or literal: skip it
                            cj = rustlex._match_brace(toks, code, cj)
                        else:
                            ck = rustlex._match_brace(toks, code, cj)
                            nxt = toks[code[ck + 1]].text if ck + 1 < len(code) else ''
                            if nxt in ('pub', 'proof', 'spec', 'fn', '#', '}', '', 'impl', 'use', 'broadcast') or ck + 1 >= len(code):
                                found = u.pos
                                break
                            cj = ck
                cj += 1
            if found is not None:
                ins.append(found + 1)
                names.append(name)
    for pos in sorted(ins, reverse=True):
        text = text[:pos] + ' assert(false); /*VACUITY-PROBE*/ ' + text[pos:]
    return text, names


# --------------------------------------------------------------------------
def module_of(relpath):
    p = relpath[:-3]
    if p.endswith('/mod'):
        p = p[:-4]
    return p.replace('/', '::')


def split_head(src):
    """leading // comment lines and blank lines stay outside the macro"""
    lines = src.split('\n')
    i = 0
    while i < len(lines) and (lines[i].startswith('//') or lines[i].strip() == ''):
        i += 1
    head = '\n'.join(lines[:i])
    body = '\n'.join(lines[i:])
    return (head + '\n' if i else ''), body, i


def cut_inline_tests(src, relpath, log):
    """crc.rs carries four #[test] functions at file level; they are dropped (listed in the evidence)"""
    if relpath != 'crc.rs':
        return src
    k = src.find('/// Calculate CRC test')
    if k < 0:
        return src
    log.append({'rule': 'DROP', 'file': relpath, 'line': src.count('\n', 0, k) + 1,
                'before': '#[test] functions at end of crc.rs', 'after': '(removed)'})
    return src[:k]


def split_top(s):
    out, depth, cur = [], 0, ''
    for ch in s:
        if ch in '([<{':
            depth += 1
        elif ch in ')]>}':
            depth -= 1
        if ch == ',' and depth == 0:
            out.append(cur)
            cur = ''
        else:
            cur += ch
    out.append(cur)
    return out


class Splicer:
    def __init__(self, body, relpath, module, spec, first_line, probes=False):
        self.probes = probes
        self.probed = []
        self.body = body
        self.relpath = relpath
        self.module = module
        self.spec = spec
        self.first_line = first_line      # line number (1-based, in the original file) of body's first line
        self.ins = []                     # (offset, seq, text, tag)
        self.funcs, self.blocks = rustlex.find_items(body, module)

    def add(self, off, text, tag=None):
        self.ins.append((off, len(self.ins), text, tag or {}))

    def line_start(self, off):
        return self.body.rfind('\n', 0, off) + 1

    def find_line(self, f, regex, what):
        seg = self.body[f.body_open:f.body_close]
        hits = []
        pos = f.body_open
        for l in seg.split('\n'):
            if re.search(regex, l):
                hits.append(pos)
            pos += len(l) + 1
        if len(hits) != 1:
            raise AnchorLost('%s: anchor /%s/ for %s matches %d lines' % (f.path, regex, what, len(hits)))
        return hits[0]

    def splice_all(self):
        spec = self.spec
        seen = set()
        for f in self.funcs:
            fs = spec.fns.get(f.path)
            if fs is None:
                continue
            if f.path in seen:
                raise AnchorLost('function path %s is ambiguous' % f.path)
            seen.add(f.path)
            self.splice_fn(f, fs)
        for b in self.blocks:
            key = '%s::%s' % (self.module, b.key)
            if b.kind == 'trait' and key in spec.traits:
                self.add(b.open + 1, '\n' + spec.traits[key], {'kind': 'ghost', 'what': key})
                seen.add(key)
            if b.kind == 'impl' and key in spec.impls:
                self.add(b.open + 1, '\n' + spec.impls[key], {'kind': 'ghost', 'what': key})
                seen.add(key)
        return seen

    def splice_fn(self, f, fs):
        ind = '        '
        if fs.attr.strip():
            self.add(self.line_start(f.item_pos), ''.join('    ' + a.strip() + '\n' for a in fs.attr.strip().split('\n')), {'kind': 'attr', 'fn': f.path})
        if fs.ret:
            if f.ret_start < 0:
                raise AnchorLost('%s: @ret given but the function has no return type' % f.path)
            self.add(f.ret_start, '(%s: ' % fs.ret, {'kind': 'ret', 'fn': f.path})
            self.add(f.ret_end, ')', {'kind': 'ret', 'fn': f.path})
        if fs.predicates:
            self.emit_predicates(f, fs)
        req = [c for c in fs.clauses if c.kind == 'requires']
        ens = [c for c in fs.clauses if c.kind == 'ensures']
        if req or ens or fs.decreases:
            self.add(f.sig_end, '\n', {'kind': 'sep'})
            if req:
                self.add(f.sig_end, '    requires\n', {'kind': 'kw'})
                for c in req:
                    self.add(f.sig_end, ''.join(ind + l + '\n' for l in (c.text.rstrip() + ',').split('\n')),
                             {'kind': 'clause', 'fn': f.path, 'cid': c.cid, 'ckind': 'requires', 'props': expand_props(f.path, c.props), 'src': c.src})
            if ens:
                self.add(f.sig_end, '    ensures\n', {'kind': 'kw'})
                for c in ens:
                    self.add(f.sig_end, ''.join(ind + l + '\n' for l in (c.text.rstrip() + ',').split('\n')),
                             {'kind': 'clause', 'fn': f.path, 'cid': c.cid, 'ckind': 'ensures', 'props': expand_props(f.path, c.props), 'src': c.src})
            if fs.decreases:
                self.add(f.sig_end, '    decreases %s\n' % fs.decreases.strip(), {'kind': 'kw'})
            self.add(f.sig_end, '    ', {'kind': 'sep'})
        if f.has_body and self.probes and (req or ens):
            self.add(f.body_open + 1, ' proof { assert(false); } /*VACUITY-PROBE*/', {'kind': 'probe', 'fn': f.path})
            self.probed.append(f.path)
        if not f.has_body:
            if fs.loops or fs.proofs:
                raise AnchorLost('%s: loop/proof splices on a bodiless function' % f.path)
            return
        for k, text in fs.loops.items():
            if k >= len(f.loops):
                raise AnchorLost('%s: loop %d not found (function has %d loops)' % (f.path, k, len(f.loops)))
            lp = f.loops[k]
            self.add(lp.body_open, '\n' + ''.join(ind + l + '\n' for l in text.strip().split('\n')) + ind,
                     {'kind': 'loopinv', 'fn': f.path, 'loop': k})
        for k, name in fs.foriter.items():
            if k >= len(f.loops) or f.loops[k].kind != 'for' or f.loops[k].in_pos < 0:
                raise AnchorLost('%s: for-loop %d not found' % (f.path, k))
            self.add(f.loops[k].in_pos, '%s: ' % name, {'kind': 'foriter', 'fn': f.path, 'loop': k})
        for mode, anchor, text in fs.proofs:
            block = ('proof {\n%s\n}\n' % text) if mode == 'proof' else (text + '\n')
            tag = {'kind': 'proof', 'fn': f.path, 'anchor': anchor}
            a = anchor.split(None, 1)
            if a[0] == 'entry':
                self.add(f.body_open + 1, '\n' + block, tag)
            elif a[0] == 'end':
                self.add(f.body_close, '\n' + block, tag)
            elif a[0] == 'loop':
                k, where = a[1].split()
                k = int(k)
                if k >= len(f.loops):
                    raise AnchorLost('%s: loop %d not found' % (f.path, k))
                lp = f.loops[k]
                if where == 'start':
                    self.add(lp.body_open + 1, '\n' + block, tag)
                else:
                    self.add(lp.body_close, '\n' + block, tag)
            elif a[0] == 'after_loop':
                k = int(a[1])
                if k >= len(f.loops):
                    raise AnchorLost('%s: loop %d not found' % (f.path, k))
                self.add(f.loops[k].body_close + 1, '\n' + block, tag)
            elif a[0] == 'match_scrutinee':
                # `match E {`  ->  `match { let vshim_scrut = E; proof { .. } vshim_scrut } {`  (E stays verbatim; only text is added)
                pos = self.find_line(f, a[1], anchor)
                eol = self.body.index('\n', pos)
                line = self.body[pos:eol]
                k = line.find('match ')
                if k < 0 or not line.rstrip().endswith('{'):
                    raise AnchorLost('%s: anchor %r is not a `match E {` line' % (f.path, anchor))
                brace = pos + len(line.rstrip()) - 1
                self.add(pos + k + len('match '), '{ let vshim_scrut = ', tag)
                self.add(brace, '; proof {\n%s\n} vshim_scrut } ' % text, tag)
            elif a[0] in ('before_all', 'after_all'):
                # the same hint at every source line of the body that matches (at least one)
                seg = self.body[f.body_open:f.body_close]
                pos, hits = f.body_open, []
                for l in seg.split('\n'):
                    if re.search(a[1], l):
                        hits.append(pos)
                    pos += len(l) + 1
                if not hits:
                    raise AnchorLost('%s: anchor /%s/ matches no line' % (f.path, a[1]))
                for h in hits:
                    if a[0] == 'before_all':
                        self.add(h, block, tag)
                    else:
                        self.add(self.body.index('\n', h) + 1, block, tag)
            elif a[0] in ('before', 'after'):
                pos = self.find_line(f, a[1], anchor)
                if a[0] == 'before':
                    self.add(pos, block, tag)
                else:
                    self.add(self.body.index('\n', pos) + 1, block, tag)
            else:
                raise AnchorLost('%s: unknown proof anchor %r' % (f.path, anchor))

    def emit_predicates(self, f, fs):
        # parameter list and return type, textually from the (rewritten) source
        sig = self.body[f.fn_pos:f.sig_end]
        lp = sig.index('(')
        depth, k = 0, lp
        while True:
            if sig[k] == '(':
                depth += 1
            elif sig[k] == ')':
                depth -= 1
                if depth == 0:
                    break
            k += 1
        params = [p.strip() for p in split_top(sig[lp + 1:k]) if p.strip()]
        has_self = bool(params) and re.match(r'^&?\s*(mut\s+)?self$', params[0])
        mut_self = has_self and 'mut' in params[0]
        if has_self:
            params = params[1:]
        params = [re.sub(r'^mut\s+', '', p) for p in params]
        ret = self.body[f.ret_start:f.ret_end].strip() if f.ret_start >= 0 else None
        out = []
        for c in fs.clauses:
            if c.kind != 'ensures':
                continue
            name = 'cl_%s_%s' % (f.name, re.sub(r'[^A-Za-z0-9]', '_', c.cid))
            text = c.text
            if mut_self:
                text = text.replace('old(self)', 'vs_old').replace('final(self)', 'vs_new')
                head = ['vs_old: &Self', 'vs_new: &Self']
            elif has_self:
                text = re.sub(r'\bself\b', 'vs_old', text)
                head = ['vs_old: &Self']
            else:
                head = []
            text = re.sub(r'\bold\((\w+)\)', r'\1', text)
            plist = ', '.join(head + params + (['%s: %s' % (fs.ret or 'res', ret)] if ret else []))
            out.append('    pub open spec fn %s(%s) -> bool {\n        %s\n    }\n' % (name, plist, text.replace('\n', '\n        ')))
        self.add(self.line_start(f.item_pos), ''.join(out), {'kind': 'ghost', 'what': 'predicates of ' + f.path})

    def render(self, extra_tail):
        """returns (text, linemap) where linemap[i] describes generated line i+1 of the *body*"""
        ins = sorted(self.ins, key=lambda t: (t[0], t[1]))
        out = []
        segs = []   # (text, tag or None for source, src_offset)
        pos = 0
        for off, _, text, tag in ins:
            if off > pos:
                segs.append((self.body[pos:off], None, pos))
                pos = off
            segs.append((text, tag, off))
        segs.append((self.body[pos:], None, pos))
        if extra_tail:
            segs.append(('\n' + extra_tail, {'kind': 'ghost', 'what': 'module tail'}, len(self.body)))
        # self-check
        stripped = ''.join(t for t, tag, _ in segs if tag is None)
        if stripped != self.body:
            raise AnchorLost('self-check failed for %s' % self.relpath)
        # line map
        # function spans by source offset
        def fn_at(off):
            for f in self.funcs:
                end = f.body_close if f.has_body else f.sig_end
                if f.item_pos <= off <= end:
                    return f.path
            return None
        info = [{'tags': [], 'src_off': None}]
        text_out = []
        for text, tag, off in segs:
            consumed = 0
            for idx, part in enumerate(text.split('\n')):
                if idx > 0:
                    info.append({'tags': [], 'src_off': None})
                if part.strip() != '':
                    li = info[-1]
                    if tag is None:
                        if li['src_off'] is None:
                            li['src_off'] = off + consumed
                    else:
                        li['tags'].append(tag)
                consumed += len(part) + 1
            text_out.append(text)
        linemap = [self._mk(li['tags'], li['src_off'], fn_at) for li in info]
        return ''.join(text_out), linemap

    def _mk(self, tags, src_off, fn_at):
        d = {}
        if src_off is not None:
            d['src_line'] = self.first_line + self.body.count('\n', 0, src_off)
            fn = fn_at(src_off)
            if fn:
                d['fn'] = fn
        for t in tags:
            if t.get('kind') in ('clause', 'loopinv', 'proof'):
                d['tag'] = t
                d.setdefault('fn', t.get('fn'))
            elif t.get('kind') == 'ghost' and 'tag' not in d:
                d['tag'] = t
        return d


def annotate(repo_src, out_dir, spec_paths, vshim_path, ghost_mods, probes=False):
    """ghost_mods: {module name: path} extra stand-alone ghost modules (files copied to src/<name>.rs)"""
    spec = vspec.parse_files(spec_paths)
    log = []
    sha = {}
    files = {}
    fmap = {}
    seen_all = set()
    probed_all = []
    fn_index = {}
    n_funcs = 0
    os.makedirs(os.path.join(out_dir, 'src'), exist_ok=True)
    rels = []
    for dp, dn, fn in os.walk(repo_src):
        dn.sort()
        for f in sorted(fn):
            if not f.endswith('.rs') or f == 'tests.rs':
                continue
            rels.append(os.path.relpath(os.path.join(dp, f), repo_src))
    for rel in rels:
        raw = open(os.path.join(repo_src, rel)).read()
        sha[rel] = hashlib.sha256(raw.encode()).hexdigest()
        src = cut_inline_tests(raw, rel, log)
        src = rewrite(src, rel, log)
        module = module_of(rel)
        if rel == 'lib.rs':
            head, body, nhead = split_head(src)
            extra = '#![feature(allocator_api)]\n#![allow(unused_imports, unused_variables, unused_mut, dead_code, unused_parens, unused_braces, unused_assignments)]\npub mod vshim;\n'
            for g in ghost_mods:
                extra += 'pub mod %s;\n' % g
            text = head + extra + body
            off = text[:len(head) + len(extra)].count('\n')
            lm = [{} for _ in range(off)] + [{'src_line': nhead + 1 + i} for i in range(body.count('\n') + 1)]
            files[rel] = text
            fmap['src/' + rel] = lm
            continue
        head, body, nhead = split_head(src)
        sp = Splicer(body, rel, module, spec, nhead + 1, probes)
        n_funcs += len(sp.funcs)
        for f in sp.funcs:
            fn_index[f.path] = {'file': rel, 'line': nhead + 1 + body.count('\n', 0, f.fn_pos), 'has_body': f.has_body,
                                'loops': len(f.loops), 'owner': f.owner_kind}
        seen_all |= sp.splice_all()
        probed_all.extend(sp.probed)
        tail = ''
        if rel == 'crc.rs':
            ts, n = tab_spec_from(body)
            tail += ts
            log.append({'rule': 'R7', 'file': rel, 'line': 0, 'before': '(none)', 'after': 'tab_spec(): spec copy of the %d table entries' % n})
        for t in spec.modules.get(module, []):
            if probes:
                t, names = probe_lemmas(t, spec.lemmas)
                probed_all.extend('lemma ' + x for x in names)
            tail += t + '\n'
        if module in spec.modules:
            seen_all.add('module ' + module)
        pre = 'use vstd::prelude::*;\nuse crate::vshim::*;\nuse crate::vprops::*;\nverus! {\n'
        if rel == 'gse_standard.rs':
            pre += 'global size_of usize == 8;\n'
        btext, blm = sp.render(tail)
        text = head + pre + btext + '\n} // verus!\n'
        lm = [{} for _ in range((head + pre).count('\n'))] + blm + [{}, {}]
        files[rel] = text
        fmap['src/' + rel] = lm
    # every @fn / @trait / @impl / @module of the spec must have found its anchor
    for p in spec.fns:
        if p not in seen_all:
            raise AnchorLost('contract for %s: function not found in /repo/src' % p)
    for k in list(spec.traits) + list(spec.impls):
        if k not in seen_all:
            raise AnchorLost('ghost items for %s: block not found' % k)
    for m in spec.modules:
        if 'module ' + m not in seen_all and m not in ghost_mods:
            raise AnchorLost('ghost items for module %s: module not found' % m)
    for rel, text in files.items():
        p = os.path.join(out_dir, 'src', rel)
        os.makedirs(os.path.dirname(p), exist_ok=True)
        open(p, 'w').write(text)
    structural = ''.join('unsafe impl vstd::prelude::Structural for crate::%s {}\n' % t for t in STRUCTURAL_TYPES)
    open(os.path.join(out_dir, 'src', 'vshim.rs'), 'w').write(open(vshim_path).read() + '\n// R8 / assumption A4: derive(PartialEq) on these enums is structural equality\n' + structural)
    for t in STRUCTURAL_TYPES:
        log.append({'rule': 'R8', 'file': 'vshim.rs', 'line': 0, 'before': '(none)', 'after': 'unsafe impl Structural for crate::%s {}' % t})
    for g, path in ghost_mods.items():
        txt = open(path).read()
        if probes:
            txt, names = probe_lemmas(txt, spec.lemmas)
            probed_all.extend('lemma ' + x for x in names)
        for t in spec.modules.get(g, []):
            txt = txt.replace('// @MODULE_TAIL', t + '\n// @MODULE_TAIL')
        open(os.path.join(out_dir, 'src', g + '.rs'), 'w').write(txt)
    meta = {
        'source_sha256': sha,
        'rewrites': log,
        'functions_in_crate': n_funcs,
        'fn_index': fn_index,
        'linemap': fmap,
        'clauses': [
            {'fn': f.path, 'cid': c.cid, 'kind': c.kind, 'props': expand_props(f.path, c.props), 'text': c.text, 'src': c.src}
            for f in spec.fns.values() for c in f.clauses
        ],
        'safe': {f.path: f.safe for f in spec.fns.values()},
        'lemmas': spec.lemmas,
        'probed': probed_all,
        'dropped': ['**/tests.rs (cfg(test) modules)', 'the four #[test] functions at the end of crc.rs'],
    }
    json.dump(meta, open(os.path.join(out_dir, 'map.json'), 'w'))
    return meta


def main():
    import argparse
    ap = argparse.ArgumentParser()
    ap.add_argument('--repo', default='/repo')
    ap.add_argument('--out', required=True)
    a = ap.parse_args()
    import glob
    specs = sorted(glob.glob(os.path.join(VERIF, 'contracts', '*.vspec')))
    ghost = {os.path.basename(p)[:-3]: p for p in sorted(glob.glob(os.path.join(VERIF, 'ghost', '*.rs'))) if os.path.basename(p) != 'vshim.rs'}
    try:
        meta = annotate(os.path.join(a.repo, 'src'), a.out, specs, os.path.join(VERIF, 'ghost', 'vshim.rs'), ghost)
    except (AnchorLost, rustlex.ParseError, vspec.SpecError) as e:
        print('annotate: %s' % e, file=sys.stderr)
        sys.exit(2)
    print('annotate: %d functions, %d clauses, %d rewrites' % (meta['functions_in_crate'], len(meta['clauses']), len(meta['rewrites'])))


if __name__ == '__main__':
    main()
