"""Run Verus on an annotated copy and attribute every diagnostic to (function, clause) / lemma."""
import json
import os
import re
import subprocess
import time

VERIFICATION_MSGS = (
    'postcondition not satisfied',
    'precondition not satisfied',
    'precondition not met',
    'requires not satisfied',
    'assertion failed',
    'assertion failure',
    'possible arithmetic underflow/overflow',
    'possible division by zero',
    'possible bit shift underflow/overflow',
    'invariant not satisfied',
    'decreases not satisfied',
    'could not prove termination',
    'loop invariant',
    'unreachable',
    'constructed value may fail to meet its declared type invariant',
    'recursive call may not terminate',
    'possible underflow',
    'possible overflow',
    'cannot show invariant holds',
    'arithmetic',
    'by (compute',
    'assert_by_compute',
    'failed to simplify down to true',
    'bit-vector',
    'bit_vector',
    'nonlinear',
)
UNDECIDED_MSGS = ('rlimit', 'resource limit', 'timed out', 'timeout', 'solver')
IGNORE_MSGS = ('aborting due to',)


def run_verus(crate_dir, modules, rlimit=50, seed=0, extra=(), timeout=3000, log_path=None, multiple_errors=500):
    cmd = ['verus', '--crate-type=lib', os.path.join(crate_dir, 'src', 'lib.rs'),
           '--multiple-errors', str(multiple_errors), '--error-format=json', '--output-json', '--time', '--rlimit', str(rlimit)]
    for m in modules:
        cmd += ['--verify-module', m]
    if seed:
        cmd += ['--smt-option', 'smt.random_seed=%d' % seed, '--smt-option', 'sat.random_seed=%d' % seed]
    cmd += list(extra)
    t0 = time.time()
    try:
        p = subprocess.run(cmd, cwd=crate_dir, stdout=subprocess.PIPE, stderr=subprocess.PIPE, text=True, timeout=timeout)
        out, err, rc = p.stdout, p.stderr, p.returncode
    except subprocess.TimeoutExpired as e:
        out, err, rc = (e.stdout or ''), (e.stderr or '') + '\nTIMEOUT', 124
        if isinstance(out, bytes):
            out = out.decode(errors='replace')
        if isinstance(err, bytes):
            err = err.decode(errors='replace')
    wall = time.time() - t0
    if log_path:
        with open(log_path, 'w') as f:
            f.write('$ ' + ' '.join(cmd) + '\n--- stdout\n' + out + '\n--- stderr\n' + err)
    diags = []
    for l in err.split('\n'):
        l = l.strip()
        if l.startswith('{'):
            try:
                diags.append(json.loads(l))
            except ValueError:
                pass
    summary = None
    try:
        summary = json.loads(out[out.index('{'):]) if '{' in out else None
    except ValueError:
        summary = None
    return {'cmd': ' '.join(cmd), 'rc': rc, 'wall_s': wall, 'diags': diags, 'summary': summary, 'stderr_tail': err[-3000:]}


class Attribution:
    def __init__(self, crate_dir, meta):
        self.crate = crate_dir
        self.meta = meta
        self.linemap = meta['linemap']
        self._ghost_cache = {}
        self.fn_props = {}
        for c in meta['clauses']:
            self.fn_props.setdefault(c['fn'], set()).update(c['props'])
        for f, props in meta['safe'].items():
            self.fn_props.setdefault(f, set()).update(props)

    def lookup(self, span):
        # a span produced inside a std macro (panic!, todo!, unreachable!): walk out to the call site in the crate
        hops = 0
        while span.get('expansion') and hops < 8:
            f0 = span.get('file_name', '')
            if os.path.isabs(f0):
                f0 = os.path.relpath(f0, self.crate)
            if f0 in self.linemap:
                break
            span = span['expansion']['span']
            hops += 1
        fn = span.get('file_name', '')
        # normalise path relative to crate dir
        if os.path.isabs(fn):
            fn = os.path.relpath(fn, self.crate)
        lm = self.linemap.get(fn)
        line = span.get('line_start', 0)
        if lm is None:
            return fn, line, None
        if 1 <= line <= len(lm):
            return fn, line, lm[line - 1]
        return fn, line, {}

    def ghost_fn_at(self, fn, line):
        """nearest preceding `fn name` in a ghost region / ghost module file"""
        path = os.path.join(self.crate, fn)
        if path not in self._ghost_cache:
            try:
                self._ghost_cache[path] = open(path).read().split('\n')
            except OSError:
                self._ghost_cache[path] = []
        lines = self._ghost_cache[path]
        for k in range(min(line, len(lines)) - 1, -1, -1):
            m = re.search(r'\bfn\s+([A-Za-z_][A-Za-z0-9_]*)', lines[k])
            if m and not lines[k].lstrip().startswith('//'):
                return m.group(1)
        return None

    def classify(self, d):
        """returns dict(kind=violation|undecided|tool|ignore, ...)"""
        msg = d.get('message', '')
        low = msg.lower()
        level = d.get('level')
        if level != 'error':
            return {'kind': 'ignore'}
        if any(low.startswith(x) for x in IGNORE_MSGS):
            return {'kind': 'ignore'}
        rec = {'message': msg, 'rendered': d.get('rendered', '')[:4000]}
        spans = d.get('spans', [])
        prim = [s for s in spans if s.get('is_primary')] or spans
        located = [self.lookup(s) + (s,) for s in spans]
        # clause hit: a span labelled as failed post/precondition that sits on a spliced clause line
        clause = None
        for fn, line, info, s in located:
            lab = (s.get('label') or '')
            if info and info.get('tag', {}).get('kind') == 'clause' and ('failed this postcondition' in lab or 'failed precondition' in lab):
                clause = info['tag']
        where = None
        for fn, line, info, s in [self.lookup(s) + (s,) for s in prim]:
            where = (fn, line, info)
        rec['file'] = where[0] if where else None
        rec['line'] = where[1] if where else None
        info = where[2] if where else None
        if any(x in low for x in UNDECIDED_MSGS) and not any(low.startswith(x) for x in VERIFICATION_MSGS):
            rec['kind'] = 'undecided'
            rec['fn'] = (info or {}).get('fn')
            return rec
        if not any(x in low for x in VERIFICATION_MSGS):
            rec['kind'] = 'tool'
            return rec
        rec['kind'] = 'violation'
        in_crate_src = info is not None
        fnpath = (info or {}).get('fn')
        tag = (info or {}).get('tag', {})
        if low.startswith('postcondition not satisfied'):
            # primary span is the failed clause (or exit point); find owning function through the clause tag
            if clause is not None and clause.get('ckind') == 'ensures':
                rec.update(target='clause', fn=clause['fn'], cid=clause['cid'], props=list(clause['props']))
                for fn, line, inf, s in located:
                    if inf and inf.get('src_line') and 'tag' not in inf:
                        rec['src_line'] = inf['src_line']
                return rec
        if fnpath and tag.get('kind') != 'ghost':
            rec['fn'] = fnpath
            rec['src_line'] = (info or {}).get('src_line')
            if tag.get('kind') in ('loopinv', 'proof'):
                rec.update(target='hint', props=sorted(self.fn_props.get(fnpath, set())), what=tag.get('kind'))
            else:
                rec.update(target='safe', props=list(self.meta['safe'].get(fnpath, [])))
                if clause is not None:
                    rec['callee_clause'] = '%s/%s' % (clause['fn'], clause['cid'])
            return rec
        # ghost code: lemma
        if where and in_crate_src or (where and where[0].startswith('src/')):
            name = self.ghost_fn_at(where[0], where[1])
            rec.update(target='lemma', lemma=name, props=list(self.meta['lemmas'].get(name, [])))
            if name not in self.meta['lemmas']:
                # helper lemma / spec fn of the ghost library: every property is potentially affected
                rec['props'] = ['*']
            return rec
        rec['kind'] = 'tool'
        return rec


def function_results(summary):
    """{'crc::crc32': {'success': True, 'ms': 73, 'rlimit': ..}}"""
    res = {}
    if not summary:
        return res
    try:
        mods = summary['times-ms']['smt']['smt-run-module-times']
    except (KeyError, TypeError):
        return res
    for m in mods:
        for f in m.get('function-breakdown', []):
            name = f['function']
            if name.startswith('lib::'):
                name = name[5:]
            r = res.setdefault(name, {'success': True, 'ms': 0.0, 'rlimit': 0})
            r['success'] = r['success'] and bool(f.get('success', True))
            r['ms'] += f.get('time-micros', 0) / 1000.0
            r['rlimit'] += f.get('rlimit', 0)
            r['mode'] = f.get('mode:', f.get('mode'))
    return res
