#!/bin/sh
# developer helper: apply a seeded change to /repo, run the given checks, undo the change.   seedtest.sh <patch.diff> <Cxx>...
patch="$1"; shift
export VERIF_EVIDENCE_DIR=$(mktemp -d)
git -C /repo apply "$patch" || { echo "patch does not apply"; exit 3; }
for p in "$@"; do
  out=$(/verif/check "$p" 2>&1); rc=$?
  echo "$p rc=$rc :: $(echo "$out" | grep -E 'VIOLATION|failed obligation|UNDECIDED|OK:' | tr '\n' ';' | cut -c1-400)"
done
git -C /repo checkout -- . 
rm -rf "$VERIF_EVIDENCE_DIR"
