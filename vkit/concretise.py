"""From a failed obligation to a replay file (DESIGN.md 3.5).

Verus gives no counterexample.  For obligations that have a registered witness search, the replay crate
(replay/) runs the real functions of /repo on a boundary lattice and evaluates the clause with a plain-Rust
oracle; a hit is a concrete failing input that is stored in the replay file and can be re-executed with
`./check <id> --replay FILE`.  The search can only decorate an already failed proof, never create a violation.
"""
import json
import os
import shutil
import subprocess
import time

HERE = os.path.dirname(os.path.abspath(__file__))
VERIF = os.path.dirname(HERE)


def _replay_dir():
    d = os.environ.get('VERIF_REPLAY_DIR') or os.path.join(VERIF, 'replays')
    os.makedirs(d, exist_ok=True)
    return d


def build_replay_crate(repo, scratch):
    src = os.path.join(VERIF, 'replay')
    if not os.path.isdir(src):
        return None
    dst = os.path.join(scratch, 'replay')
    if os.path.exists(dst):
        shutil.rmtree(dst)
    shutil.copytree(src, dst, ignore=lambda d, n: [x for x in n if x == 'target'])
    base = os.path.join(scratch, 'baseline')
    if os.path.exists(base):
        shutil.rmtree(base)
    shutil.copytree(os.path.join(VERIF, 'baseline'), base)
    cargo = open(os.path.join(dst, 'Cargo.toml')).read().replace('@REPO@', repo).replace('@BASE@', base)
    open(os.path.join(dst, 'Cargo.toml'), 'w').write(cargo)
    env = dict(os.environ, CARGO_NET_OFFLINE='true', CARGO_TARGET_DIR=os.path.join(scratch, 'replay-target'))
    p = subprocess.run(['cargo', 'build', '--offline', '--quiet', '--release'], cwd=dst, env=env, stdout=subprocess.PIPE, stderr=subprocess.STDOUT, text=True)
    if p.returncode != 0:
        return None
    return os.path.join(scratch, 'replay-target', 'release', 'replay')


def finding_witnesses(pid):
    p = os.path.join(VERIF, 'known_findings.json')
    names = []
    if os.path.exists(p):
        for f in json.load(open(p)).get('findings', []):
            if f.get('property') == pid:
                names += f.get('witnesses', [])
    return sorted(set(names))


def run_witnesses(exe, pid):
    """re-execute the native witnesses of the (repaired) defects recorded for this property; returns [(name, message)] of those that fail"""
    names = finding_witnesses(pid)
    if not names:
        return [], 0
    p = subprocess.run([exe, 'witness'] + names, stdout=subprocess.PIPE, stderr=subprocess.PIPE, text=True, timeout=300)
    bad = []
    for l in p.stdout.split('\n'):
        if ': FAILS: ' in l:
            n, m = l.split(': FAILS: ', 1)
            bad.append((n, m))
    return bad, len(names)


def witness_search(pid, names, repo, scratch, say):
    exe = build_replay_crate(repo, scratch)
    if not exe:
        return None
    bad, _n = run_witnesses(exe, pid)
    if bad:
        return {'search': 'defect-witness', 'name': bad[0][0], 'observed': bad[0][1], 'params': []}
    try:
        p = subprocess.run([exe, 'search', pid] + sorted(names), stdout=subprocess.PIPE, stderr=subprocess.PIPE, text=True, timeout=600)
    except subprocess.TimeoutExpired:
        return None
    for l in p.stdout.split('\n'):
        if l.startswith('WITNESS '):
            try:
                return json.loads(l[8:])
            except ValueError:
                pass
    return None


DIFF_SCENARIOS = 200000


def differential(repo, scratch, say, pid='-'):
    """native differential execution of the tree under check against the pinned baseline (/verif/baseline) over pseudo-random,
    boundary-biased API scenarios (replay/src/trace_body.rs).  Returns {'same': n} / {'seed':.., 'pinned':.., 'current':..} / None."""
    exe = build_replay_crate(repo, scratch)
    if not exe:
        return None
    try:
        p = subprocess.run([exe, 'diff', '0', str(DIFF_SCENARIOS)], stdout=subprocess.PIPE, stderr=subprocess.PIPE, text=True, timeout=1800)
    except subprocess.TimeoutExpired:
        return None
    lines = p.stdout.strip().split('\n')
    if lines and lines[0].startswith('DIFFERENT'):
        return {'seed': int(lines[0].split('seed=')[1]), 'pinned': lines[1][9:] if len(lines) > 1 else '', 'current': lines[2][9:] if len(lines) > 2 else ''}
    if lines and lines[0].startswith('SAME'):
        return {'same': DIFF_SCENARIOS}
    return None


def make_replay(pid, mine, kani_fail, meta, repo, scratch, say, tier, standin_hit=None, kani_cex=None):
    d = _replay_dir()
    n = 0
    while os.path.exists(os.path.join(d, '%s-%d.json' % (pid, n))):
        n += 1
    path = os.path.join(d, '%s-%d.json' % (pid, n))
    obligations = []
    for name, r in sorted(mine.items()):
        obligations.append({'obligation': name, 'back_end': 'verus', 'message': r['message'],
                            'repo_line': r.get('src_line'), 'function': r.get('fn'), 'diagnostic': r.get('rendered', '')})
    for h in kani_fail:
        obligations.append({'obligation': 'kani ' + h['name'], 'back_end': 'kani/cbmc', 'message': 'harness failed', 'diagnostic': h['detail']})
    witness = standin_hit
    if standin_hit:
        obligations.append({'obligation': 'bounded stand-in ' + standin_hit.get('search', ''), 'back_end': 'native execution of /repo (bounded)',
                            'message': standin_hit.get('observed', ''), 'diagnostic': json.dumps(standin_hit)})
    try:
        if witness is None:
            witness = witness_search(pid, list(mine), repo, scratch, say)
    except Exception as e:  # noqa  -- the search must never turn into an error of its own
        say(pid, 'witness search did not run: %s' % e)
    if witness is None and kani_cex:
        witness = kani_cex[0]      # the verifier's own counterexample (Kani concrete playback)
    differs = None
    if witness is None and not kani_fail:
        # no concrete failing input: is this a changed BEHAVIOUR or only a failed PROOF?
        try:
            differs = differential(repo, scratch, say, pid)
        except Exception as e:  # noqa
            say(pid, 'differential execution did not run: %s' % e)
    rec = {'property': pid, 'created': time.strftime('%Y-%m-%dT%H:%M:%S'), 'failed_obligations': obligations,
           'witness': witness, 'found_input': witness is not None, 'differential_against_pinned_tree': differs}
    json.dump(rec, open(path, 'w'), indent=1)
    if differs and 'seed' in differs:
        say(pid, 'behaviour differs from the pinned tree (differential scenario %d): pinned %s | current %s' % (differs['seed'], differs['pinned'][:160], differs['current'][:160]))
    if differs and 'same' in differs:
        say(pid, 'behaviour is indistinguishable from the pinned tree on %d API scenarios' % differs['same'])
        return {'path': path, 'found_input': False, 'same_behaviour': True}
    if witness:
        say(pid, 'concrete failing input (%s): %s' % (witness.get('search'), json.dumps({k: v for k, v in witness.items() if k != 'test'})[:300]))
    return {'path': path, 'found_input': witness is not None, 'different': bool(differs and 'seed' in differs)}


def replay(pid, path, repo, scratch, say):
    rec = json.load(open(path))
    print('replay of %s: %d failed obligation(s)' % (path, len(rec.get('failed_obligations', []))))
    for o in rec.get('failed_obligations', []):
        print('--- %s [%s] %s' % (o['obligation'], o['back_end'], o['message']))
        print(o.get('diagnostic', '')[:1500])
    w = rec.get('witness')
    if not w:
        print('no concrete input was found for this violation (no-failing-input-found); the obligations above are re-checked by ./check %s' % pid)
        return 0
    if w.get('search') == 'kani-playback':
        import kani_run
        print(w['test'])
        ok, tail = kani_run.replay_playback(w, repo, scratch)
        print(tail)
        print('REPRODUCED: the concrete playback test fails on the real code' if ok else 'not reproduced')
        return 1 if ok else 0
    exe = build_replay_crate(repo, scratch)
    if not exe:
        print('replay crate did not build')
        return 2
    if w.get('search') == 'defect-witness':
        p = subprocess.run([exe, 'witness', w['name']], stdout=subprocess.PIPE, stderr=subprocess.STDOUT, text=True)
        print(p.stdout)
        return 1 if 'FAILS' in p.stdout else 0
    p = subprocess.run([exe, 'replay', json.dumps(w)], stdout=subprocess.PIPE, stderr=subprocess.STDOUT, text=True)
    print(p.stdout)
    return 1 if 'REPRODUCED' in p.stdout else 0


def bounded_standin(pid, msg, tool, repo, scratch, say):
    """Verus rejected the changed code as outside its subset.  Bounded stand-in: execute the real functions over the boundary
    lattices of replay/src/search.rs (and the recorded defect witnesses).  Only a concrete failing input yields a replay file."""
    w = None
    try:
        w = witness_search(pid, [], repo, scratch, say)
    except Exception as e:  # noqa
        say(pid, 'bounded stand-in did not run: %s' % e)
    if not w:
        say(pid, 'bounded stand-in (native lattice search) found no failing input')
        return None
    d = _replay_dir()
    n = 0
    while os.path.exists(os.path.join(d, '%s-%d.json' % (pid, n))):
        n += 1
    path = os.path.join(d, '%s-%d.json' % (pid, n))
    rec = {'property': pid, 'created': time.strftime('%Y-%m-%dT%H:%M:%S'), 'level': 'bounded stand-in: Verus could not process the changed code',
           'failed_obligations': [{'obligation': 'bounded native search', 'back_end': 'native execution of /repo over the lattices of replay/src/search.rs',
                                   'message': msg, 'diagnostic': '\n'.join(r.get('rendered', '') for r in tool[:3])}],
           'witness': w, 'found_input': True}
    json.dump(rec, open(path, 'w'), indent=1)
    say(pid, 'bounded stand-in found a concrete failing input: %s' % json.dumps(w)[:300])
    return path
