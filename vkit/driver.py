#!/usr/bin/env python3
"""check driver:  ./check <Cxx> [--tier quick|thorough] | ./check <Cxx> --replay FILE | ./check --setup

exit 0  every obligation of the property was discharged (KNOWN-FINDING lines for open findings)
exit 1  an obligation that the property depends on is no longer discharged; prints
        VIOLATION property=<id> replay=<path>[ no-failing-input-found]
exit 2  tool failure / undecided (lost anchor, rustc error, rlimit, Verus crash) -- never an alarm
"""
import argparse
import atexit
import glob
import json
import os
import re
import shutil
import signal
import subprocess
import sys
import tempfile
import time

HERE = os.path.dirname(os.path.abspath(__file__))
VERIF = os.path.dirname(HERE)
sys.path.insert(0, HERE)
import annotate      # noqa: E402
import rustlex       # noqa: E402
import vspec         # noqa: E402
import verus_run     # noqa: E402
import kani_run      # noqa: E402
import concretise    # noqa: E402
import tv            # noqa: E402

REPO = os.environ.get('VERIF_REPO', '/repo')
ALL_PROPS = ['C%02d' % i for i in range(1, 21)]

ASSUMPTIONS = {
    'A1': 'target: usize is 64-bit (global size_of usize == 8); machine integers are machine integers (overflow is an obligation)',
    'A2': 'language invariant used as requires: slices are at most isize::MAX bytes long',
    'A3': "vstd's specifications of slices / Vec / Option / Result / copy_from_slice / mem::swap, plus assume_specification for Vec::capacity, Vec::with_capacity, Vec::into_boxed_slice, <[u8]>::into (ghost/vshim.rs)",
    'A4': 'derive(PartialEq) is structural on Label/LabelType/PktType (R8: unsafe impl Structural appended to the shim module); the derived Clone of Extension returns an extension with the same id and data (axiom_ext_clone)',
    'A5': 'user-supplied trait implementations satisfy the trait contracts (pure CRC calculator; memory contract; extension manager is a function of the id)',
    'A6': 'shims R1-R3 (to_be_bytes / from_be_bytes / try_into) are external_body with specs; each spec is proved by a Kani complete harness (kani/shims)',
    'A7': "Verus runs with its lifetime (borrow) checking on; additionally cargo check runs on /repo itself in the same run",
    'A8': 'the ghost library (ghost/vprops.rs) is the intended reading of ETSI TS 102 606 / RFC 5163 / CRC-32/MPEG-2 (anchored by the catalogue check value)',
    'A9': 'tools are sound: Verus 0.2026.09.13 + bundled Z3, rustc 1.98.1, Kani 0.68 / CBMC 6.11',
    'A10': 'no unsafe in the crate (grep on every run); panics are the only abnormal termination considered',
}

_scratch = []


def _cleanup(*_a):
    for d in _scratch:
        shutil.rmtree(d, ignore_errors=True)


atexit.register(_cleanup)
for _s in (signal.SIGTERM, signal.SIGINT, signal.SIGHUP):
    signal.signal(_s, lambda *_a: (_cleanup(), os._exit(130)))


def scratch_dir():
    base = os.environ.get('VERIF_SCRATCH') or tempfile.gettempdir()
    d = tempfile.mkdtemp(prefix='dvbgse-verif-', dir=base)
    _scratch.append(d)
    return d


def say(pid, msg):
    print('[%s] %s' % (pid, msg), flush=True)


def load_findings():
    p = os.path.join(VERIF, 'known_findings.json')
    if not os.path.exists(p):
        return []
    return json.load(open(p)).get('findings', [])


def spec_paths():
    return sorted(glob.glob(os.path.join(VERIF, 'contracts', '*.vspec')))


def ghost_mods():
    return {os.path.basename(p)[:-3]: p for p in sorted(glob.glob(os.path.join(VERIF, 'ghost', '*.rs')))
            if os.path.basename(p) != 'vshim.rs'}


def module_of_fn(path):
    parts = path.split('::')
    # module path = leading lower-case segments that are module names of the crate
    mods = []
    for p in parts[:-1]:
        if p[0].islower():
            mods.append(p)
        else:
            break
    return '::'.join(mods)


def cargo_check(pid, scratch):
    env = dict(os.environ, CARGO_TARGET_DIR=os.path.join(scratch, 'cargo-target'), CARGO_NET_OFFLINE='true')
    p = subprocess.run(['cargo', 'check', '--offline', '--quiet', '--manifest-path', os.path.join(REPO, 'Cargo.toml')],
                       env=env, stdout=subprocess.PIPE, stderr=subprocess.STDOUT, text=True)
    shutil.rmtree(os.path.join(scratch, 'cargo-target'), ignore_errors=True)
    if p.returncode != 0:
        say(pid, 'cargo check on /repo failed (exec code must borrow-check, assumption A7):\n' + p.stdout[-2000:])
        return False
    return True


def unsafe_scan():
    hits = []
    for dp, dn, fn in os.walk(os.path.join(REPO, 'src')):
        for f in fn:
            if f.endswith('.rs'):
                for no, l in enumerate(open(os.path.join(dp, f), errors='replace'), 1):
                    if re.search(r'\bunsafe\b', l.split('//')[0]):
                        hits.append('%s:%d' % (os.path.relpath(os.path.join(dp, f), REPO), no))
    return hits


SCAN_TOKENS = ['assume(', 'admit(', 'external_body', 'assume_specification', '#[verifier::external', 'verifier::truncate',
               'exec_allows_no_decreases_clause', 'uninterp']


def assumption_scan(crate):
    found = {}
    for dp, dn, fn in os.walk(os.path.join(crate, 'src')):
        for f in sorted(fn):
            p = os.path.join(dp, f)
            rel = os.path.relpath(p, crate)
            txt = open(p).read()
            for t in SCAN_TOKENS:
                # ignore occurrences in comments
                n = sum(1 for l in txt.split('\n') if t in l.split('//')[0])
                if n:
                    found['%s %s' % (rel, t)] = n
    return found


def check_allowlist(found):
    p = os.path.join(VERIF, 'vkit', 'allowlist.json')
    allow = json.load(open(p)) if os.path.exists(p) else {}
    extra = {k: v for k, v in found.items() if allow.get(k, 0) < v}
    return extra


def property_units(meta, pid):
    """the named obligations of a property: clauses, SAFE groups, lemmas"""
    units = []
    for c in meta['clauses']:
        if pid in c['props'] and c['kind'] == 'ensures':
            units.append({'kind': 'clause', 'name': '%s/%s' % (c['fn'], c['cid']), 'fn': c['fn'], 'text': c['text']})
    for f, props in meta['safe'].items():
        if pid in props:
            units.append({'kind': 'safe', 'name': '%s/SAFE' % f, 'fn': f})
    for l, props in meta['lemmas'].items():
        if pid in props:
            units.append({'kind': 'lemma', 'name': 'lemma %s' % l, 'lemma': l})
    return units


def cone_modules(meta, pid):
    mods = set()
    for c in meta['clauses']:
        if pid in c['props']:
            mods.add(module_of_fn(c['fn']))
    for f, props in meta['safe'].items():
        if pid in props:
            mods.add(module_of_fn(f))
    if any(pid in p for p in meta['lemmas'].values()):
        mods.add('vprops')
    # lemmas defined in module tails: find them
    return sorted(m for m in mods if m)


def new_functions(meta):
    try:
        base = set(json.load(open(os.path.join(VERIF, 'vkit', 'baseline_fns.json'))))
    except (OSError, ValueError):
        return set()
    return set(meta['fn_index']) - base


def fn_source(f, meta):
    """source text of function f in the current tree: from its first line to the next function of the same file"""
    fi = meta['fn_index'].get(f)
    if not fi:
        return ''
    try:
        lines = open(os.path.join(REPO, 'src', fi['file'])).read().split('\n')
    except OSError:
        return ''
    starts = sorted(v['line'] for v in meta['fn_index'].values() if v['file'] == fi['file'] and v['line'] > fi['line'])
    end = starts[0] - 1 if starts else len(lines)
    return '\n'.join(lines[fi['line'] - 1:end])


def calls_new_function(f, meta, new_fns):
    txt = fn_source(f, meta)
    fi = meta['fn_index'].get(f) or {}
    if fi.get('owner') == 'trait_decl':
        # a clause of a trait contract fails in an implementation of that method
        last = f.split('::')[-1]
        for g, gi in meta['fn_index'].items():
            if gi.get('owner') == 'trait_impl' and g.split('::')[-1] == last:
                txt += '\n' + fn_source(g, meta)
    return any(re.search(r'\b%s\s*\(' % re.escape(n.split('::')[-1]), txt) for n in new_fns if n != f)


def failure_name(r):
    if r.get('target') == 'clause':
        return '%s/%s' % (r['fn'], r['cid'])
    if r.get('target') == 'safe':
        return '%s/SAFE' % r['fn']
    if r.get('target') == 'hint':
        return '%s/HINT' % r['fn']
    if r.get('target') == 'lemma':
        return 'lemma %s' % r.get('lemma')
    return '?'


def run_check(pid, tier, seed):
    t0 = time.time()
    scratch = scratch_dir()
    crate = os.path.join(scratch, 'crate')
    ev_path = os.path.join(os.environ.get('VERIF_EVIDENCE_DIR') or os.path.join(VERIF, 'evidence'), pid + '.json')
    os.makedirs(os.path.dirname(ev_path), exist_ok=True)
    if os.path.exists(ev_path):
        os.remove(ev_path)

    if not cargo_check(pid, scratch):
        return 2
    unsafe_hits = unsafe_scan()
    try:
        meta = annotate.annotate(os.path.join(REPO, 'src'), crate, spec_paths(), os.path.join(VERIF, 'ghost', 'vshim.rs'), ghost_mods())
    except (annotate.AnchorLost, rustlex.ParseError, vspec.SpecError) as e:
        say(pid, 'annotator: %s' % e)
        if isinstance(e, annotate.AnchorLost):
            # the changed code no longer offers the anchor of a contract or hint: it cannot be decided deductively;
            # bounded stand-in (native lattice search); only a concrete, replayable failing input is reported
            rp = concretise.bounded_standin(pid, 'lost anchor: %s' % e, [], REPO, scratch, say)
            if rp:
                print('VIOLATION property=%s replay=%s' % (pid, rp), flush=True)
                return 1
        say(pid, 'UNDECIDED (exit 2)')
        return 2
    say(pid, 'annotated copy of /repo/src: %d functions, %d clauses, %d rewrite applications'
        % (meta['functions_in_crate'], len(meta['clauses']), len(meta['rewrites'])))
    units = property_units(meta, pid)
    harnesses = kani_run.harnesses_for(pid, tier)
    if not units and not harnesses:
        say(pid, 'UNDECIDED (exit 2): no obligation is registered for this property')
        return 2
    scan = assumption_scan(crate)
    extra = check_allowlist(scan)
    if extra:
        say(pid, 'UNDECIDED (exit 2): assumption scan found tokens outside the allow-list: %s' % extra)
        return 2

    modules = cone_modules(meta, pid)
    seeds = [seed] if tier == 'quick' else [seed, seed + 1, seed + 2]
    runs = []
    all_fail = None
    unstable = []
    fn_results = {}
    k = -1
    while k + 1 < len(seeds):
        k += 1
        sd = seeds[k]
        vr = verus_run.run_verus(crate, modules if tier == 'quick' else [], rlimit=60, seed=sd if (k or sd) else 0,
                                 log_path=os.path.join(scratch, 'verus-%d.log' % k))
        attr = verus_run.Attribution(crate, meta)
        recs = [attr.classify(d) for d in vr['diags']]
        recs = [r for r in recs if r['kind'] != 'ignore']
        fr = verus_run.function_results(vr['summary'])
        runs.append({'seed': sd, 'wall_s': round(vr['wall_s'], 2), 'cmd': vr['cmd'],
                     'verified': (vr['summary'] or {}).get('verification-results', {}).get('verified'),
                     'errors': (vr['summary'] or {}).get('verification-results', {}).get('errors')})
        tool = [r for r in recs if r['kind'] == 'tool']
        undec = [r for r in recs if r['kind'] == 'undecided']
        if vr['summary'] is None or tool:
            msg = tool[0]['message'] if tool else vr['stderr_tail'][-600:]
            say(pid, 'Verus did not complete: %s' % msg)
            for r in tool[:5]:
                say(pid, '  ' + r['rendered'].split('\n')[0] + ' @ %s:%s' % (r.get('file'), r.get('line')))
            if tool:
                # the changed code is outside the verifier's subset ("not supported"), or the spliced contracts / hints no longer
                # compile against it (cargo check of the tree itself passed): it cannot be decided deductively.  Bounded stand-in
                # (native oracle search over the stated lattices), labelled bounded; it can report a violation only with a
                # concrete, replayable failing input
                rp = concretise.bounded_standin(pid, msg, tool, REPO, scratch, say)
                if rp:
                    print('VIOLATION property=%s replay=%s' % (pid, rp), flush=True)
                    return 1
            say(pid, 'UNDECIDED (exit 2)')
            return 2
        fails = {}
        for r in recs:
            if r['kind'] == 'violation':
                fails.setdefault(failure_name(r), r)
        undecided_here = [r for r in undec]
        if all_fail is None:
            all_fail, fn_results, first_undec = fails, fr, undecided_here
        else:
            # an obligation counts as failed only if no seed proves it
            for name in list(all_fail):
                if name not in fails:
                    unstable.append(name)
                    del all_fail[name]
            first_undec = [u for u in first_undec if any((u.get('fn') == v.get('fn')) for v in undecided_here)]
        say(pid, 'verus (seed %d, modules %s): %s verified, %s errors, %.1f s'
            % (sd, ','.join(modules) if tier == 'quick' else 'all', runs[-1]['verified'], runs[-1]['errors'], vr['wall_s']))
        if tier == 'quick' and k == 0 and (all_fail or first_undec):
            # something failed: before it is reported, the same obligations get two more chances with other solver seeds
            # (an obligation counts as failed only if no seed proves it; costs nothing on a tree where everything verifies)
            seeds += [sd + 1, sd + 2]
    if not runs[0]['verified']:
        say(pid, 'UNDECIDED (exit 2): Verus verified zero functions')
        return 2

    # vacuity probes: a second annotated copy with assert(false) at the entry of every function under contract and every
    # registered lemma of the cone; each probe must FAIL (a probe that verifies means a contradictory precondition)
    probe_crate = os.path.join(scratch, 'probe')
    try:
        pmeta = annotate.annotate(os.path.join(REPO, 'src'), probe_crate, spec_paths(), os.path.join(VERIF, 'ghost', 'vshim.rs'), ghost_mods(), probes=True)
    except (annotate.AnchorLost, rustlex.ParseError, vspec.SpecError) as e:
        say(pid, 'UNDECIDED (exit 2): annotator (probe copy): %s' % e)
        return 2
    pv = verus_run.run_verus(probe_crate, modules if tier == 'quick' else [], rlimit=20, multiple_errors=2, log_path=os.path.join(scratch, 'verus-probe.log'))
    pres = verus_run.function_results(pv['summary'])
    unit_fns = {u.get('fn') for u in units if u.get('fn')} | {'lemma ' + u['lemma'] for u in units if u['kind'] == 'lemma'}
    probes_checked, vacuous = 0, []
    for pr in pmeta['probed']:
        if pr not in unit_fns:
            continue
        name = pr[6:] if pr.startswith('lemma ') else pr
        hits = [k for k in pres if k == name or k.endswith('::' + name)]
        if not hits:
            continue
        probes_checked += 1
        if any(pres[h]['success'] for h in hits):
            vacuous.append(pr)
    if vacuous:
        say(pid, 'UNDECIDED (exit 2): vacuity probe verified (contradictory precondition?) in %s' % vacuous)
        return 2
    if probes_checked == 0 and unit_fns:
        say(pid, 'UNDECIDED (exit 2): vacuity probe run produced no result: %s' % pv['stderr_tail'][-300:])
        return 2
    say(pid, 'vacuity probes: %d probes failed as they must (%.1f s)' % (probes_checked, pv['wall_s']))

    mine = {n: r for n, r in all_fail.items() if pid in r.get('props', []) or '*' in r.get('props', [])}
    others = {n: r for n, r in all_fail.items() if n not in mine}
    # Modularity: a caller is checked against its callees' CONTRACTS.  A function that does not exist in the pinned tree has no contract
    # (its postcondition is `true`), so an obligation of a function that calls it cannot be discharged whatever the helper does: that is
    # "undecided", not a violation -- unless a concrete failing input is found below.
    new_fns = new_functions(meta)
    demoted = {}
    if new_fns:
        for n in list(mine):
            f = mine[n].get('fn')
            if f and (f in new_fns or calls_new_function(f, meta, new_fns)):
                demoted[n] = mine.pop(n)
        if demoted:
            say(pid, 'functions without contract (not in the pinned tree): %s; %d failed obligation(s) of their callers cannot be decided modularly: %s'
                % (sorted(new_fns), len(demoted), sorted(demoted)[:6]))
    unit_names = {u['name'] for u in units}
    # rlimit / undecided in a function of this property's cone -> exit 2
    cone_fns = {u.get('fn') for u in units if u.get('fn')}
    und = [u for u in first_undec if u.get('fn') in cone_fns or u.get('fn') is None]

    # Kani complete harnesses (second back end)
    kani_res = []
    if harnesses:
        kani_res = kani_run.run_harnesses(pid, harnesses, REPO, scratch, say)
        for h in kani_res:
            if h['status'] == 'error':
                say(pid, 'UNDECIDED (exit 2): Kani harness %s did not run: %s' % (h['name'], h['detail'][-400:]))
                return 2
    # a failed property harness is a concrete failing input found by CBMC, whether its domain is complete or bounded (a bounded one that
    # passes is never counted as proved); a failed harness that validates an ASSUMED specification means the assumption is wrong: exit 2
    kani_fail = [h for h in kani_res if h['status'] == 'failed' and (h['role'] == 'complete' or h.get('about') == 'property')]
    kani_bounded_fail = [h for h in kani_res if h['status'] == 'failed' and h['role'] == 'bounded' and h.get('about') != 'property']
    if kani_bounded_fail:
        say(pid, 'UNDECIDED (exit 2): a bounded Kani harness that validates an assumed specification failed: %s' % [h['name'] for h in kani_bounded_fail])
        return 2

    # thorough tier: translation validation of the rewrite rules (the rewritten sources must pass the repository's own tests)
    tvres = None
    if tier == 'thorough':
        tvres = tv.run(REPO, scratch)
        say(pid, 'translation validation of the rewrites: %d applications of %s, %d tests passed, %d failed'
            % (tvres['rewrite_applications'], ','.join(tvres['rules']), tvres['tests_passed'], tvres['tests_failed']))
        if not tvres['ok']:
            say(pid, 'UNDECIDED (exit 2): the rewritten sources do not pass the test suite: %s' % tvres['tail'][-300:])
            return 2

    # bounded stand-ins (every tier): clauses that could not be brought under contract are covered by a bounded native check of
    # the real function; a concrete failing input is a violation, labelled bounded; a pass is never counted as proved
    standin_res = []
    standin_hit = None
    for sd in kani_run.standins_for(pid):
        exe = concretise.build_replay_crate(REPO, scratch)
        if not exe:
            say(pid, 'UNDECIDED (exit 2): replay crate did not build (bounded stand-in %s)' % sd['name'])
            return 2
        q = subprocess.run([exe, 'standin', sd['name']], stdout=subprocess.PIPE, stderr=subprocess.PIPE, text=True, timeout=900)
        cases = [int(l.split()[1]) for l in q.stdout.split('\n') if l.startswith('CASES ')]
        hits = [l[8:] for l in q.stdout.split('\n') if l.startswith('WITNESS ')]
        standin_res.append({'name': sd['name'], 'level': 'bounded (not counted as proved)', 'replaces': sd['replaces'], 'bound': sd['bound'],
                            'cases_executed': cases[0] if cases else 0, 'failing_input': hits[0] if hits else None})
        say(pid, 'bounded stand-in %s: %d cases executed on the real code, %s' % (sd['name'], cases[0] if cases else 0, 'FAILING INPUT ' + hits[0][:200] if hits else 'no failing input'))
        if hits and not standin_hit:
            standin_hit = json.loads(hits[0])

    # thorough tier: native re-execution of the witnesses of the repaired defects of this property, and the oracle searches;
    # a hit without a failed obligation means the oracle or a contract is wrong -> undecided, never an alarm by itself
    native = {'witnesses_run': 0, 'witnesses_failed': [], 'oracle_hit': None}
    if tier == 'thorough':
        exe = concretise.build_replay_crate(REPO, scratch)
        if exe:
            bad, nw = concretise.run_witnesses(exe, pid)
            native['witnesses_run'] = nw
            native['witnesses_failed'] = ['%s: %s' % b for b in bad]
            try:
                q = subprocess.run([exe, 'search', pid], stdout=subprocess.PIPE, stderr=subprocess.PIPE, text=True, timeout=900)
                hits = [l[8:] for l in q.stdout.split('\n') if l.startswith('WITNESS ')]
                native['oracle_hit'] = hits[0] if hits else None
            except subprocess.TimeoutExpired:
                native['oracle_hit'] = 'timeout'
            say(pid, 'native replays: %d defect witnesses re-executed (%d fail), oracle search hit: %s' % (nw, len(bad), native['oracle_hit']))
            if (bad or native['oracle_hit']) and not all_fail:
                say(pid, 'UNDECIDED (exit 2): a native replay fails although every obligation is discharged (oracle or contract gap): %s %s' % (native['witnesses_failed'], native['oracle_hit']))
                return 2
        else:
            say(pid, 'replay crate did not build; native replays skipped')

    # known findings
    findings = [f for f in load_findings() if f.get('property') == pid and f.get('status') == 'open']
    known_lines = []
    for f in findings:
        ob = f.get('obligation')
        if ob in mine:
            known_lines.append('KNOWN-FINDING: property=%s %s' % (pid, f.get('what')))
            del mine[ob]

    n_units = len(units) + len([h for h in kani_res if h['role'] == 'complete'])
    failed_units = [u for u in units if u['name'] in mine] + [{'name': 'kani ' + h['name']} for h in kani_fail]
    # hint failures belong to functions: count against the function's units
    hint_fail = [n for n in mine if n.endswith('/HINT') or n.startswith('lemma ') and n not in unit_names]
    discharged = n_units - len(failed_units)

    fn_times = {}
    for u in units:
        f = u.get('fn')
        if f and f in fn_results:
            fn_times[f] = round(fn_results[f]['ms'], 1)
        if u['kind'] == 'lemma':
            for k, v in fn_results.items():
                if k.endswith('::' + u['lemma']):
                    fn_times[k] = round(v['ms'], 1)
    fns_under_contract = sorted({c['fn'] for c in meta['clauses']} | set(meta['safe']))
    violation = bool(mine) or bool(kani_fail) or standin_hit is not None

    evidence = {
        'property_id': pid,
        'tier': tier,
        'seed': seed,
        'level': 'proof',
        'coverage': {
            'obligations': n_units,
            'discharged': discharged,
            'checker_cmd': runs[0]['cmd'].replace(crate, '<annotated copy of /repo/src>'),
            'trusted_base': ['Verus 0.2026.09.13 (Z3 bundled)', 'rustc 1.98.1', 'vstd', 'Kani 0.68.0 / CBMC 6.11 (complete harnesses)',
                             'ghost/vshim.rs external_body shims', 'ghost/vprops.rs as the reading of the standard'],
            'obligation_names': [u['name'] for u in units] + ['kani ' + h['name'] for h in kani_res if h['role'] == 'complete'],
            'failed_obligations': sorted(mine) + ['kani ' + h['name'] for h in kani_fail],
            'hint_failures': hint_fail,
            'other_failures_not_of_this_property': sorted(others),
            'unstable_obligations': unstable,
            'functions_under_contract': fns_under_contract,
            'functions_in_crate': meta['functions_in_crate'],
            'verus_runs': runs,
            'solver_ms_by_function': fn_times,
            'kani': [{k: h[k] for k in ('name', 'role', 'status', 'wall_s', 'bound')} for h in kani_res],
            'translation_validation_of_rewrites': tvres,
            'native_replays': native,
            'bounded_standins': standin_res,
            'vacuity_probes': {'checked': probes_checked, 'verified_unexpectedly': vacuous},
            'rewrites_applied': len(meta['rewrites']),
            'rewrite_rules': sorted({r['rule'] for r in meta['rewrites']}),
            'rewrite_log_sample': meta['rewrites'][:6],
            'extraction_drops': meta['dropped'],
            'source_sha256': meta['source_sha256'],
            'assumption_scan': scan,
            'unsafe_in_repo': unsafe_hits,
            'known_findings': known_lines,
            'samples': [{'obligation': u['name'], 'clause': u.get('text', '')[:400]} for u in units[:6]],
        },
        'assumptions': [k + ': ' + v for k, v in ASSUMPTIONS.items()],
        'wall_s': 0.0,
        'violations': len(mine) + len(kani_fail) + (1 if standin_hit else 0),
    }

    rc = 0
    # A failed proof HINT (loop invariant, spliced assertion, precondition of a lemma call in a hint) is a failed proof step, not a failed
    # obligation of the property.  When nothing but hints fails, the property's clauses were verified only under those hints: undecided,
    # unless a concrete failing input exists (witness search / bounded stand-in).
    hint_only = bool(mine) and all(n.endswith('/HINT') for n in mine) and not kani_fail and standin_hit is None
    weak = None
    if hint_only:
        weak = ('only proof hints fail (%s)' % sorted(mine)[:4], mine)
    elif demoted and not violation:
        weak = ('the changed tree has functions without contract; obligations of their callers fail (%s)' % sorted(demoted)[:4], demoted)
    if weak:
        # weak evidence: a violation needs a concrete failing input, or at least a behaviour that differs from the pinned tree
        rp = concretise.make_replay(pid, weak[1], [], meta, REPO, scratch, say, tier)
        if rp['found_input'] or rp.get('different'):
            for n in sorted(weak[1]):
                say(pid, 'failed obligation: %s  (%s)' % (n, weak[1][n]['message']))
            print('VIOLATION property=%s replay=%s%s' % (pid, rp['path'], '' if rp['found_input'] else ' no-failing-input-found'), flush=True)
            return 1
        say(pid, 'UNDECIDED (exit 2): %s; no failing input was found and the behaviour does not differ from the pinned tree' % weak[0])
        return 2
    if und and not violation:
        say(pid, 'resource limit reached in %s' % sorted({str(u.get('fn')) for u in und}))
        # undecided by the verifier: bounded stand-in; only a concrete, replayable failing input is a violation
        rp = concretise.bounded_standin(pid, 'resource limit reached', und, REPO, scratch, say)
        if rp:
            print('VIOLATION property=%s replay=%s' % (pid, rp), flush=True)
            return 1
        say(pid, 'UNDECIDED (exit 2)')
        rc = 2
    if violation:
        kani_cex = []
        for h in kani_fail[:1]:
            try:
                reg = [x for x in kani_run.registry() if x['name'] == h['name']]
                cx = kani_run.playback(reg[0], REPO, scratch, say) if reg else None
                if cx:
                    kani_cex.append(cx)
            except Exception as e:  # noqa -- decoration only
                say(pid, 'kani playback did not run: %s' % e)
        rp = concretise.make_replay(pid, mine, kani_fail, meta, REPO, scratch, say, tier, standin_hit, kani_cex)
        if rp.get('same_behaviour'):
            # obligations fail, no failing input exists among the oracle searches, and the tree behaves exactly like the pinned tree on
            # every differential scenario: a failed proof (solver incompleteness on rewritten code), not a demonstrated violation
            for n in sorted(mine):
                say(pid, 'undischarged obligation: %s  (%s)' % (n, mine[n]['message']))
            say(pid, 'UNDECIDED (exit 2): obligations are no longer discharged, but no failing input was found and the behaviour is unchanged')
            return 2
        evidence['coverage']['replay'] = rp['path']
        suffix = '' if rp['found_input'] else ' no-failing-input-found'
        for n in sorted(mine):
            say(pid, 'failed obligation: %s  (%s)' % (n, mine[n]['message']))
        for h in kani_fail:
            say(pid, 'failed Kani %s harness: %s' % (h['role'], h['name']))
        print('VIOLATION property=%s replay=%s%s' % (pid, rp['path'], suffix), flush=True)
        rc = 1
    for l in known_lines:
        print(l, flush=True)
    evidence['wall_s'] = round(time.time() - t0, 2)
    if rc != 2:
        json.dump(evidence, open(ev_path, 'w'), indent=1)
    if rc == 0:
        say(pid, 'OK: %d/%d obligations discharged (%d clauses/safe groups/lemmas, %d Kani complete harnesses), %.1f s'
            % (discharged, n_units, len(units), len([h for h in kani_res if h['role'] == 'complete']), time.time() - t0))
    return rc


def setup():
    ok = True
    for tool in (['verus', '--version'], ['cargo', 'kani', '--version'], ['cbmc', '--version']):
        try:
            p = subprocess.run(tool, stdout=subprocess.PIPE, stderr=subprocess.STDOUT, text=True, timeout=120)
            print('%-14s %s' % (' '.join(tool[:2]), p.stdout.strip().split('\n')[0]))
            ok = ok and p.returncode == 0
        except (OSError, subprocess.TimeoutExpired) as e:
            print('%s: %s' % (tool, e))
            ok = False
    try:
        spec = vspec.parse_files(spec_paths())
        print('contracts: %d functions under contract, %d lemmas' % (len(spec.fns), len(spec.lemmas)))
        json.load(open(os.path.join(VERIF, 'MANIFEST.json')))
        if os.path.exists(os.path.join(VERIF, 'known_findings.json')):
            json.load(open(os.path.join(VERIF, 'known_findings.json')))
    except Exception as e:  # noqa
        print('setup: %s' % e)
        ok = False
    os.makedirs(os.path.join(VERIF, 'evidence'), exist_ok=True)
    os.makedirs(os.path.join(VERIF, 'replays'), exist_ok=True)
    return 0 if ok else 2


def main():
    ap = argparse.ArgumentParser()
    ap.add_argument('prop', nargs='?')
    ap.add_argument('--tier', default=os.environ.get('VERIF_TIER', 'quick'), choices=['quick', 'thorough'])
    ap.add_argument('--replay')
    ap.add_argument('--setup', action='store_true')
    ap.add_argument('--update-allowlist', action='store_true', help='developer command: record the current assumption scan')
    a = ap.parse_args()
    if a.setup:
        sys.exit(setup())
    if a.update_allowlist:
        sc = scratch_dir()
        annotate.annotate(os.path.join(REPO, 'src'), os.path.join(sc, 'crate'), spec_paths(), os.path.join(VERIF, 'ghost', 'vshim.rs'), ghost_mods())
        found = assumption_scan(os.path.join(sc, 'crate'))
        json.dump(found, open(os.path.join(VERIF, 'vkit', 'allowlist.json'), 'w'), indent=1, sort_keys=True)
        print(json.dumps(found, indent=1))
        sys.exit(0)
    if not a.prop or a.prop not in ALL_PROPS:
        print('usage: check <C01..C20> [--tier quick|thorough] [--replay FILE]')
        sys.exit(2)
    if a.replay:
        sys.exit(concretise.replay(a.prop, a.replay, REPO, scratch_dir(), say))
    try:
        seed = int(os.environ.get('VERIF_SEED', '0'))
    except ValueError:
        seed = 0
    sys.exit(run_check(a.prop, a.tier, seed))


if __name__ == '__main__':
    main()
