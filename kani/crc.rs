// @append-to: src/crc.rs
// Kani complete harnesses for the CRC (C12): the table and the byte step against the bitwise definition.
#[cfg(kani)]
mod verif_kani_crc {
    use super::*;
    fn bit_step(c: u32) -> u32 { if c & 0x8000_0000 != 0 { (c << 1) ^ 0x04C1_1DB7 } else { c << 1 } }
    fn bits8(mut c: u32) -> u32 { let mut k = 0; while k < 8 { c = bit_step(c); k += 1; } c }

    /// all 256 table entries: CRC_TAB[i] == eight MSB-first polynomial rounds of (i << 24)
    #[kani::proof]
    #[kani::unwind(9)]
    fn c12_table_entries() {
        let i: u8 = kani::any();
        assert!(CRC_TAB.len() == 256);
        assert!(CRC_TAB[i as usize] == bits8((i as u32) << 24));
    }
    /// one byte through crc32 == eight bitwise rounds, for every accumulator and every byte
    #[kani::proof]
    #[kani::unwind(9)]
    fn c12_byte_step() {
        let acc: u32 = kani::any();
        let b: u8 = kani::any();
        assert!(crc32(&[b], acc) == bits8(acc ^ ((b as u32) << 24)));
    }
    /// field order and initial value of the default calculator (bounded: label <= 6 bytes, PDU <= 2 bytes)
    #[kani::proof]
    #[kani::unwind(16)]
    fn c12_default_fields_bounded() {
        let total: u16 = kani::any();
        let ptype: u16 = kani::any();
        let lab: [u8; 3] = kani::any();
        let pdu: [u8; 2] = kani::any();
        let mut c = 0xFFFF_FFFFu32;
        let bytes = [(total >> 8) as u8, total as u8, (ptype >> 8) as u8, ptype as u8, lab[0], lab[1], lab[2], pdu[0], pdu[1]];
        let mut k = 0;
        while k < 9 { c = bits8(c ^ ((bytes[k] as u32) << 24)); k += 1; }
        assert!(DefaultCrc {}.calculate_crc32(&pdu, ptype, total, &lab) == c);
    }
}
