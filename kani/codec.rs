// @append-to: src/lib.rs
// Kani complete harnesses for the fixed-header codec (C14): loop-free, full domain.
#[cfg(kani)]
mod verif_kani_codec {
    use crate::gse_decap::read_gse_header;
    use crate::gse_encap::generate_gse_header;
    use crate::label::LabelType;
    use crate::pkt_type::PktType;

    fn any_kind() -> PktType {
        match kani::any::<u8>() % 4 { 0 => PktType::CompletePkt, 1 => PktType::FirstFragPkt, 2 => PktType::IntermediateFragPkt, _ => PktType::EndFragPkt }
    }
    fn any_ltype() -> LabelType {
        match kani::any::<u8>() % 4 { 0 => LabelType::SixBytesLabel, 1 => LabelType::ThreeBytesLabel, 2 => LabelType::Broadcast, _ => LabelType::ReUse }
    }
    /// independent reading: S | E | LT(2) | length(12)
    fn spec_word(k: &PktType, t: &LabelType, len: u16) -> u16 {
        let (s, e) = match k { PktType::CompletePkt => (1u16, 1u16), PktType::FirstFragPkt => (1, 0), PktType::IntermediateFragPkt => (0, 0), PktType::EndFragPkt => (0, 1) };
        let lt = match t { LabelType::SixBytesLabel => 0u16, LabelType::ThreeBytesLabel => 1, LabelType::Broadcast => 2, LabelType::ReUse => 3 };
        s * 0x8000 + e * 0x4000 + lt * 0x1000 + len
    }

    /// every one of the 65536 words: no panic; None exactly for the padding pattern; re-encoding reproduces the word
    #[kani::proof]
    fn c14_all_words() {
        let w: u16 = kani::any();
        match read_gse_header(w) {
            None => assert!(w >> 12 == 0),
            Some((len, k, t)) => {
                assert!(w >> 12 != 0);
                assert!(len <= 4095);
                assert!(generate_gse_header(&k, &t, len as u16) == w);
                assert!(spec_word(&k, &t, len as u16) == w);
            }
        }
    }
    /// every (kind, label type, length <= 4095) triple that is not the padding pattern decodes to itself
    #[kani::proof]
    fn c14_all_triples() {
        let k = any_kind();
        let t = any_ltype();
        let len: u16 = kani::any();
        kani::assume(len <= 4095);
        let w = generate_gse_header(&k, &t, len);
        assert!(w == spec_word(&k, &t, len));
        let padding = k == PktType::IntermediateFragPkt && t == LabelType::SixBytesLabel;
        match read_gse_header(w) {
            None => assert!(padding),
            Some((l2, k2, t2)) => { assert!(!padding); assert!(l2 == len as usize && k2 == k && t2 == t); }
        }
    }
}
