// @append-to: src/gse_decap/mod.rs
// Kani harness for the peek function (C19, C05): loop-free; buffers of symbolic length 0..=16 with symbolic bytes
// (the function never reads beyond byte 13, and compares the length with at most 13).
#[cfg(kani)]
mod verif_kani_peek {
    use super::*;
    use crate::crc::DefaultCrc;
    use crate::header_extension::SimpleMandatoryExtensionHeaderManager;

    #[kani::proof]
    fn c19_peek_small_buffers() {
        let bytes: [u8; 16] = kani::any();
        let n: usize = kani::any();
        kani::assume(n <= 16);
        let buffer = &bytes[..n];
        let d = Decapsulator::new(SimpleGseMemory::new(0, 0, 0, 0), DefaultCrc {}, SimpleMandatoryExtensionHeaderManager {});
        let res = d.get_label_or_frag_id(buffer);
        if n < 2 { assert!(res == Err(GetLabelorFragIdError::ErrSizeBuffer)); return; }
        let w = ((bytes[0] as u16) << 8) | bytes[1] as u16;
        if w >> 12 == 0 { assert!(res == Err(GetLabelorFragIdError::ErrHeaderRead)); return; }
        let (s, e, lt) = (w >> 15, (w >> 14) & 1, (w >> 12) & 3);
        let ll = match lt { 0 => 6usize, 1 => 3, _ => 0 };
        if s == 0 {
            // intermediate / end: the fragment id
            if n < 4 + ll { assert!(res == Err(GetLabelorFragIdError::ErrSizeBuffer)); } else { assert!(res == Ok(LabelorFragId::FragId(bytes[2]))); }
        } else if lt == 2 { assert!(res == Ok(LabelorFragId::Lbl(Label::Broadcast))); }
        else if lt == 3 { assert!(res == Err(GetLabelorFragIdError::ErrLabelReuse)); }
        else {
            let off = if e == 0 { 7usize } else { 4 };
            if n < off + ll { assert!(res == Err(GetLabelorFragIdError::ErrSizeBuffer)); }
            else if lt == 0 { assert!(res == Ok(LabelorFragId::Lbl(Label::SixBytesLabel([bytes[off], bytes[off + 1], bytes[off + 2], bytes[off + 3], bytes[off + 4], bytes[off + 5]])))); }
            else { assert!(res == Ok(LabelorFragId::Lbl(Label::ThreeBytesLabel([bytes[off], bytes[off + 1], bytes[off + 2]])))); }
        }
    }
}
