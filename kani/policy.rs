// @append-to: src/gse_encap/mod.rs
// Kani complete harnesses for the label re-use policy step (C15, C04): loop-free, full domain of the private state
// (activated, max, current: all 2 x 256 x 256; remembered label and next label: every kind, symbolic bytes).
#[cfg(kani)]
mod verif_kani_policy {
    use super::*;
    use crate::crc::DefaultCrc;

    fn any_label() -> Label {
        match kani::any::<u8>() % 4 {
            0 => Label::SixBytesLabel(kani::any()),
            1 => Label::ThreeBytesLabel(kani::any()),
            2 => Label::Broadcast,
            _ => Label::ReUse,
        }
    }
    fn is_addr(l: &Label) -> bool { matches!(l, Label::SixBytesLabel(_) | Label::ThreeBytesLabel(_)) }

    /// what any correct re-use decision satisfies (the plain-Rust reading of label_step_ok, ghost/vprops.rs):
    /// the label written is the label passed or the re-use marker; a substitution happens only when re-use is enabled, for a
    /// 3/6-byte label equal to the remembered one, and within the configured bound; the memory then follows the label written
    #[kani::proof]
    fn c15_policy_step_all_states() {
        let activated: bool = kani::any();
        let max: u8 = kani::any();
        let cur: u8 = kani::any();
        let last: Option<Label> = if kani::any() { Some(any_label()) } else { None };
        // representation invariant of reachable states (Encapsulator::inv)
        kani::assume(max == 0 || cur <= max);
        kani::assume(match &last { Some(l) => is_addr(l), None => true });
        let mut e = Encapsulator { last_label: last, crc_calculator: DefaultCrc {}, re_use_activated: activated, re_max_consecutive: max, re_current_consecutive: cur };
        let label = any_label();
        let w = e.check_label_re_use(label);
        // the label written
        assert!(w == label || w == Label::ReUse);
        let substituted = w == Label::ReUse && label != Label::ReUse;
        if substituted {
            assert!(activated);
            assert!(is_addr(&label) && last == Some(label));
            assert!(max == 0 || cur < max);
            if max > 0 { assert!(e.re_current_consecutive == cur + 1); }
            assert!(e.last_label == last);
        }
        if !activated { assert!(w == label); }
        // configuration untouched, invariant kept
        assert!(e.re_use_activated == activated && e.re_max_consecutive == max);
        assert!(e.re_max_consecutive == 0 || e.re_current_consecutive <= e.re_max_consecutive);
        assert!(match &e.last_label { Some(l) => is_addr(l), None => true });
        // the memory after a packet that carries its label in full
        if activated && !substituted {
            match label {
                Label::Broadcast => assert!(e.last_label.is_none()),
                Label::ReUse => assert!(e.last_label == last),
                _ => assert!(e.last_label == Some(label)),
            }
        }
    }
}
