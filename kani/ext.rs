// @append-to: src/header_extension/mod.rs
// Kani harness for the extension constructor (C13): every id 0..=65535 x every data length 0..=10 with symbolic bytes
// (exactly the domain the property quantifies over); the only loop is the copy of at most 10 bytes.
#[cfg(kani)]
mod verif_kani_ext {
    use super::*;

    #[kani::proof]
    #[kani::unwind(12)]
    fn c13_ext_new_all_ids() {
        let id: u16 = kani::any();
        let bytes: [u8; 10] = kani::any();
        let n: usize = kani::any();
        kani::assume(n <= 10);
        let data = &bytes[..n];
        let res = Extension::new(id, data);
        // RFC 5163 H-LEN table: data bytes of an optional extension header
        let hlen = |h: u16| -> Option<usize> { match h { 1 => Some(0), 2 => Some(2), 3 => Some(4), 4 => Some(6), 5 => Some(8), _ => None } };
        let ok = id < 0x600 && (id < 0x100 || hlen(id >> 8) == Some(n));
        match res {
            Ok(e) => {
                assert!(ok);
                assert!(e.id() == id && e.len() == 2 + n);
                match e.data() {
                    ExtensionData::MandatoryData(v) => { assert!(id < 0x100 && v.len() == n); let i: usize = kani::any(); kani::assume(i < n); assert!(v[i] == bytes[i]); }
                    ExtensionData::NoData => assert!(id >= 0x100 && n == 0),
                    ExtensionData::Data2(a) => assert!(id >= 0x100 && n == 2 && a[0] == bytes[0] && a[1] == bytes[1]),
                    ExtensionData::Data4(a) => assert!(id >= 0x100 && n == 4 && a[0] == bytes[0] && a[3] == bytes[3]),
                    ExtensionData::Data6(a) => assert!(id >= 0x100 && n == 6 && a[0] == bytes[0] && a[5] == bytes[5]),
                    ExtensionData::Data8(a) => assert!(id >= 0x100 && n == 8 && a[0] == bytes[0] && a[7] == bytes[7]),
                }
            }
            Err(NewExtensionError::IncorrectExtensionId) => assert!(id >= 0x600),
            Err(NewExtensionError::IdAndVecSizeNotMatchingError) => assert!(!ok && id < 0x600),
        }
    }
}
