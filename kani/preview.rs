// @append-to: src/gse_encap/mod.rs
// Kani complete harnesses for the previews (C18): loop-free; PDU and buffer are sub-slices of symbolic length 0..=70000 of
// constant arrays (the previews read only the lengths), every label kind with symbolic bytes, every protocol type, every context.
#[cfg(kani)]
mod verif_kani_preview {
    use super::*;

    static PDU: [u8; 70001] = [0u8; 70001];
    static BUF: [u8; 70001] = [0u8; 70001];

    fn any_label() -> Label {
        match kani::any::<u8>() % 4 {
            0 => Label::SixBytesLabel(kani::any()),
            1 => Label::ThreeBytesLabel(kani::any()),
            2 => Label::Broadcast,
            _ => Label::ReUse,
        }
    }
    fn ll(l: &Label) -> usize { match l { Label::SixBytesLabel(_) => 6, Label::ThreeBytesLabel(_) => 3, _ => 0 } }

    /// encap_preview against the plain-Rust reading of size_decision (ghost/vprops.rs)
    #[kani::proof]
    fn c18_preview_all_sizes() {
        let pl: usize = kani::any(); let bl: usize = kani::any();
        kani::assume(pl <= 70000 && bl <= 70000);
        let label = any_label(); let pt: u16 = kani::any();
        let res = encap_preview(&PDU[..pl], EncapMetadata { protocol_type: pt, label }, &BUF[..bl]);
        let l = ll(&label);
        if label == Label::SixBytesLabel([0; 6]) { assert!(res == Err(EncapError::ErrorInvalidLabel)); }
        else if (0x100..0x600).contains(&pt) { assert!(res == Err(EncapError::ErrorProtocolType)); }
        else if bl >= 4 + l + pl && 2 + l + pl <= 4095 {
            assert!(res == Ok(EncapPreview { pkt_type: PktType::CompletePkt, pdu_len: pl, pkt_len: (4 + l + pl) as u16 }));
        }
        else if bl < 7 + l { assert!(res == Err(EncapError::ErrorSizeBuffer)); }
        else if pl + 2 + l > 0xFFFF { assert!(res == Err(EncapError::ErrorPduLength)); }
        else {
            let k = core::cmp::min(bl - 7 - l, 4095 - 5 - l);
            match res { Ok(p) => { assert!(p.pkt_type == PktType::FirstFragPkt && p.pkt_len as usize == 7 + l + k); assert!(k < pl); }, Err(_) => assert!(false) }
        }
    }
    /// encap_frag_preview against the plain-Rust reading of frag_decision
    #[kani::proof]
    fn c18_frag_preview_all_sizes() {
        let pl: usize = kani::any(); let bl: usize = kani::any();
        kani::assume(pl <= 70000 && bl <= 70000);
        let ctx = ContextFrag { frag_id: kani::any(), crc: kani::any(), len_pdu_frag: kani::any() };
        let sent = ctx.len_pdu_frag as usize;
        let res = encap_frag_preview(&PDU[..pl], &ctx, &BUF[..bl]);
        if sent > pl { assert!(res == Err(EncapError::ErrorPduLength)); }
        else {
            let rem = pl - sent;
            if bl >= rem + 7 && rem + 5 <= 4095 {
                assert!(res == Ok(EncapPreview { pkt_type: PktType::EndFragPkt, pdu_len: rem, pkt_len: (rem + 7) as u16 }));
            } else if bl > 3 && rem >= 1 {
                let k = core::cmp::min(core::cmp::min(bl - 3, rem), 4094);
                assert!(res == Ok(EncapPreview { pkt_type: PktType::IntermediateFragPkt, pdu_len: k, pkt_len: (3 + k) as u16 }));
            } else { assert!(res == Err(EncapError::ErrorSizeBuffer)); }
        }
    }
}
