// @append-to: src/lib.rs
// Kani complete harnesses for the specifications assumed on the std shims (assumption A6, rules R1-R3).
#[cfg(kani)]
mod verif_kani_shims {
    fn be16(x: u16) -> [u8; 2] { [(x >> 8) as u8, (x & 0xff) as u8] }
    fn be32(x: u32) -> [u8; 4] { [(x >> 24) as u8, ((x >> 16) & 0xff) as u8, ((x >> 8) & 0xff) as u8, (x & 0xff) as u8] }
    #[kani::proof]
    fn shim_be16() {
        let x: u16 = kani::any();
        assert!(x.to_be_bytes() == be16(x));
        let a: [u8; 2] = kani::any();
        assert!(u16::from_be_bytes(a) == ((a[0] as u16) << 8) | (a[1] as u16));
    }
    #[kani::proof]
    fn shim_be32() {
        let x: u32 = kani::any();
        assert!(x.to_be_bytes() == be32(x));
        let a: [u8; 4] = kani::any();
        assert!(u32::from_be_bytes(a) == ((a[0] as u32) << 24) | ((a[1] as u32) << 16) | ((a[2] as u32) << 8) | (a[3] as u32));
    }
    #[kani::proof]
    fn shim_u8() {
        let x: u8 = kani::any();
        assert!(x.to_be_bytes() == [x]);
        assert!(u8::from_be_bytes([x]) == x);
        assert!(u8::from_be(x) == x);
    }
    /// slice -> array try_into succeeds exactly when the lengths agree and copies the bytes (N = 1, 2, 3, 4, 6, 8 are the sizes used)
    #[kani::proof]
    fn shim_try_into_slices() {
        let a: [u8; 9] = kani::any();
        let n: usize = kani::any();
        kani::assume(n <= 9);
        let s = &a[..n];
        let r1: Result<[u8; 1], _> = s.try_into(); assert!(r1.is_ok() == (n == 1)); if let Ok(v) = r1 { assert!(v[0] == a[0]); }
        let r2: Result<[u8; 2], _> = s.try_into(); assert!(r2.is_ok() == (n == 2)); if let Ok(v) = r2 { assert!(v[0] == a[0] && v[1] == a[1]); }
        let r3: Result<[u8; 3], _> = s.try_into(); assert!(r3.is_ok() == (n == 3)); if let Ok(v) = r3 { assert!(v[0] == a[0] && v[2] == a[2]); }
        let r4: Result<[u8; 4], _> = s.try_into(); assert!(r4.is_ok() == (n == 4)); if let Ok(v) = r4 { assert!(v[0] == a[0] && v[3] == a[3]); }
        let r6: Result<[u8; 6], _> = s.try_into(); assert!(r6.is_ok() == (n == 6)); if let Ok(v) = r6 { assert!(v[0] == a[0] && v[5] == a[5]); }
        let r8: Result<[u8; 8], _> = s.try_into(); assert!(r8.is_ok() == (n == 8)); if let Ok(v) = r8 { assert!(v[0] == a[0] && v[7] == a[7]); }
    }
    #[kani::proof]
    fn shim_try_into_ints() {
        let x: u16 = kani::any();
        let r: Result<u8, _> = x.try_into();
        assert!(r.is_ok() == (x <= 255)); if let Ok(v) = r { assert!(v as u16 == x); }
        let y: usize = kani::any();
        let r: Result<u16, _> = y.try_into();
        assert!(r.is_ok() == (y <= 65535)); if let Ok(v) = r { assert!(v as usize == y); }
    }
}
// Bounded validation of the remaining trusted specifications (assumptions A3, A4, A6): `slice.into()` (R10), the capacity axioms
// for Vec::push / Vec::pop used by SimpleGseMemory, and the derived Clone of Extension.
#[cfg(kani)]
mod verif_kani_assumptions {
    use crate::header_extension::Extension;
    /// R10: `<&[u8] as Into<Vec<u8>>>::into` copies the slice (lengths 0..=4, all contents)
    #[kani::proof]
    #[kani::unwind(6)]
    fn shim_into_vec_bounded() {
        let a: [u8; 4] = kani::any();
        let n: usize = kani::any();
        kani::assume(n <= 4);
        let v: Vec<u8> = a[..n].into();
        assert!(v.len() == n);
        let mut i = 0;
        while i < n { assert!(v[i] == a[i]); i += 1; }
    }
    /// axiom_push_cap / axiom_pop_cap: capacity is unchanged by push below capacity and by pop; with_capacity(n) has capacity >= n
    #[kani::proof]
    #[kani::unwind(6)]
    fn axiom_vec_capacity_bounded() {
        let n: usize = kani::any();
        kani::assume(n >= 1 && n <= 4);
        let mut v: Vec<u8> = Vec::with_capacity(n);
        let cap = v.capacity();
        assert!(cap >= n && v.len() == 0);
        let mut i = 0;
        while i < n { if v.len() < v.capacity() { v.push(i as u8); assert!(v.capacity() == cap); } i += 1; }
        let _ = v.pop();
        assert!(v.capacity() == cap);
        // reserve_exact(k): contents unchanged, capacity >= len + k
        let k: usize = kani::any();
        kani::assume(k <= 4);
        let len = v.len();
        v.reserve_exact(k);
        assert!(v.len() == len && v.capacity() >= len + k);
    }
    /// axiom_ext_clone: the derived Clone of Extension keeps id and data (optional 2-byte data; mandatory with 0..=2 data bytes)
    #[kani::proof]
    #[kani::unwind(4)]
    fn axiom_ext_clone_bounded() {
        let d: [u8; 2] = kani::any();
        let e = if kani::any() { Extension::new(0x0245, &d).unwrap() } else { let n: usize = kani::any(); kani::assume(n <= 2); Extension::new(0x0042, &d[..n]).unwrap() };
        let c = e.clone();
        assert!(c == e && c.id() == e.id() && c.len() == e.len());
    }
}
