use vstd::prelude::*;
verus! {
pub open spec fn be16(x: u16) -> Seq<u8> { seq![(x >> 8) as u8, (x & 0xff) as u8] }
pub open spec fn be32(x: u32) -> Seq<u8> { seq![(x >> 24) as u8, ((x >> 16) & 0xff) as u8, ((x >> 8) & 0xff) as u8, (x & 0xff) as u8] }
pub open spec fn from_be16(s: Seq<u8>) -> u16 { ((s[0] as u16) << 8) | (s[1] as u16) }
pub open spec fn from_be32(s: Seq<u8>) -> u32 { ((s[0] as u32) << 24) | ((s[1] as u32) << 16) | ((s[2] as u32) << 8) | (s[3] as u32) }
pub trait VShimToBe: Sized {
    type Out;
    spec fn be_spec(self) -> Seq<u8>;
    spec fn out_view(o: Self::Out) -> Seq<u8>;
    fn vshim_to_be_bytes(self) -> (r: Self::Out) ensures Self::out_view(r) == self.be_spec();
}
impl VShimToBe for u16 { type Out = [u8; 2];
    open spec fn be_spec(self) -> Seq<u8> { be16(self) }
    open spec fn out_view(o: [u8;2]) -> Seq<u8> { o@ }
    #[verifier::external_body] fn vshim_to_be_bytes(self) -> (r: [u8; 2]) { self.to_be_bytes() } }
impl VShimToBe for u8 { type Out = [u8; 1];
    open spec fn be_spec(self) -> Seq<u8> { seq![self] }
    open spec fn out_view(o: [u8;1]) -> Seq<u8> { o@ }
    #[verifier::external_body] fn vshim_to_be_bytes(self) -> (r: [u8; 1]) { self.to_be_bytes() } }
impl VShimToBe for u32 { type Out = [u8; 4];
    open spec fn be_spec(self) -> Seq<u8> { be32(self) }
    open spec fn out_view(o: [u8;4]) -> Seq<u8> { o@ }
    #[verifier::external_body] fn vshim_to_be_bytes(self) -> (r: [u8; 4]) { self.to_be_bytes() } }
#[verifier::external_body] pub fn vshim_u16_from_be_bytes(a: [u8; 2]) -> (r: u16) ensures r == from_be16(a@) { u16::from_be_bytes(a) }
#[verifier::external_body] pub fn vshim_u8_from_be_bytes(a: [u8; 1]) -> (r: u8) ensures r == a@[0] { u8::from_be_bytes(a) }
#[verifier::external_body] pub fn vshim_u32_from_be_bytes(a: [u8; 4]) -> (r: u32) ensures r == from_be32(a@) { u32::from_be_bytes(a) }
#[verifier::external_body] pub fn vshim_u8_from_be(a: u8) -> (r: u8) ensures r == a { u8::from_be(a) }
pub trait VShimSliceToArray { spec fn sview(&self) -> Seq<u8>;
    fn vshim_try_into_unwrap<const N: usize>(&self) -> (r: [u8; N]) requires self.sview().len() == N, ensures r@ == self.sview(); }
impl VShimSliceToArray for [u8] { open spec fn sview(&self) -> Seq<u8> { self@ }
    #[verifier::external_body] fn vshim_try_into_unwrap<const N: usize>(&self) -> (r: [u8; N]) { self.try_into().unwrap() } }
pub trait VShimU16ToU8 { spec fn v(self) -> int; fn vshim_try_into_unwrap(self) -> (r: u8) requires self.v() <= 255, ensures r as int == self.v(); }
impl VShimU16ToU8 for u16 { open spec fn v(self) -> int { self as int }
    #[verifier::external_body] fn vshim_try_into_unwrap(self) -> (r: u8) { self.try_into().unwrap() } }
pub trait VShimUsizeToU16 { spec fn v(self) -> int; fn vshim_try_into_unwrap(self) -> (r: u16) requires self.v() <= 65535, ensures r as int == self.v(); }
impl VShimUsizeToU16 for usize { open spec fn v(self) -> int { self as int }
    #[verifier::external_body] fn vshim_try_into_unwrap(self) -> (r: u16) { self.try_into().unwrap() } }
/// A2: a live slice is at most isize::MAX bytes long (Rust language guarantee for every allocation)
#[verifier::external_body]
pub proof fn axiom_box_len(b: &Box<[u8]>) ensures b@.len() <= isize::MAX {}
#[verifier::external_body]
pub proof fn axiom_slice_len(b: &[u8]) ensures b@.len() <= isize::MAX {}
pub trait VShimIntoVec { spec fn sv(&self) -> Seq<u8>; fn vshim_into_vec(&self) -> (r: Vec<u8>) ensures r@ == self.sv(); }
impl VShimIntoVec for [u8] { open spec fn sv(&self) -> Seq<u8> { self@ }
    #[verifier::external_body] fn vshim_into_vec(&self) -> (r: Vec<u8>) { self.into() } }
pub uninterp spec fn spec_vec_capacity<T, A: std::alloc::Allocator>(v: &Vec<T, A>) -> usize;
pub assume_specification<T, A: std::alloc::Allocator> [std::vec::Vec::<T, A>::capacity] (v: &std::vec::Vec<T, A>) -> (r: usize)
   ensures r == spec_vec_capacity(v), r >= v.len();
/// R12: `Vec::with_capacity(n)` allocates room for at least n elements (std documentation); vstd's own specification only says "empty"
#[verifier::external_body] pub fn vshim_with_capacity<T>(n: usize) -> (v: Vec<T>) ensures v@.len() == 0, spec_vec_capacity(&v) >= n { Vec::with_capacity(n) }
/// `Vec::reserve_exact(k)` / `Vec::reserve(k)` (std documentation): afterwards capacity >= len + k; the contents are unchanged
pub assume_specification<T, A: std::alloc::Allocator> [std::vec::Vec::<T, A>::reserve_exact] (v: &mut std::vec::Vec<T, A>, additional: usize)
   ensures final(v)@ == old(v)@, spec_vec_capacity(final(v)) >= old(v)@.len() + additional;
pub assume_specification<T, A: std::alloc::Allocator> [std::vec::Vec::<T, A>::into_boxed_slice] (v: std::vec::Vec<T, A>) -> (r: std::boxed::Box<[T], A>)
   ensures r@ == v@;
} // verus!
