// Ghost library: the independent reading of ETSI TS 102 606 / RFC 5163 and of CRC-32/MPEG-2
// against which the contracts are stated, and the lemmas that turn per-function contracts
// into the listed properties.  Spec and proof code only: nothing here is executable.
use vstd::prelude::*;
use crate::vshim::*;
use crate::label::{Label, LabelType};
use crate::pkt_type::PktType;
verus! {

// =====================================================================================
// fixed header (C14)
// =====================================================================================
pub open spec fn s_bit(k: PktType) -> int { match k { PktType::CompletePkt => 1, PktType::FirstFragPkt => 1, _ => 0 } }
pub open spec fn e_bit(k: PktType) -> int { match k { PktType::CompletePkt => 1, PktType::EndFragPkt => 1, _ => 0 } }
pub open spec fn lt_code(t: LabelType) -> int { match t { LabelType::SixBytesLabel => 0, LabelType::ThreeBytesLabel => 1, LabelType::Broadcast => 2, LabelType::ReUse => 3 } }
pub open spec fn kind_of(s: int, e: int) -> PktType {
    if s == 1 && e == 1 { PktType::CompletePkt } else if s == 1 { PktType::FirstFragPkt } else if e == 1 { PktType::EndFragPkt } else { PktType::IntermediateFragPkt } }
pub open spec fn ltype_of(t: int) -> LabelType {
    if t == 0 { LabelType::SixBytesLabel } else if t == 1 { LabelType::ThreeBytesLabel } else if t == 2 { LabelType::Broadcast } else { LabelType::ReUse } }

/// S | E | LT(2) | GSE length(12), most significant bit first
pub open spec fn hdr_word(k: PktType, t: LabelType, len: int) -> int {
    s_bit(k) * 0x8000 + e_bit(k) * 0x4000 + lt_code(t) * 0x1000 + len % 0x1000 }
pub open spec fn hdr_s(w: int) -> int { (w / 0x8000) % 2 }
pub open spec fn hdr_e(w: int) -> int { (w / 0x4000) % 2 }
pub open spec fn hdr_t(w: int) -> int { (w / 0x1000) % 4 }
pub open spec fn hdr_len(w: int) -> int { w % 0x1000 }
/// padding <=> S = 0, E = 0, LT = 00
pub open spec fn hdr_is_padding(w: int) -> bool { w / 0x1000 == 0 }
pub open spec fn hdr_decode(w: int) -> Option<(usize, PktType, LabelType)> {
    if hdr_is_padding(w) { None } else { Some((hdr_len(w) as usize, kind_of(hdr_s(w), hdr_e(w)), ltype_of(hdr_t(w)))) } }

pub proof fn lemma_hdr_mask(a: u16, b: u16, c: u16)
    requires a == 0 || a == 0x4000 || a == 0x8000 || a == 0xC000, b == 0 || b == 0x1000 || b == 0x2000 || b == 0x3000,
    ensures ((a & 0xC000u16) | (b & 0x3000u16) | (c & 0x0FFFu16)) as int == a + b + (c as int) % 0x1000,
{
    assert((a & 0xC000u16) | (b & 0x3000u16) | (c & 0x0FFFu16) == a + b + (c % 0x1000u16)) by (bit_vector)
        requires a == 0 || a == 0x4000 || a == 0x8000 || a == 0xC000, b == 0 || b == 0x1000 || b == 0x2000 || b == 0x3000;
}
pub proof fn lemma_hdr_fields(w: u16)
    ensures (w & 0xC000u16) as int == (w as int / 0x4000) * 0x4000,
            (w & 0x3000u16) as int == ((w as int / 0x1000) % 4) * 0x1000,
            (w & 0x0FFFu16) as int == (w as int) % 0x1000,
            w & 0xC000u16 == 0 || w & 0xC000u16 == 0x4000 || w & 0xC000u16 == 0x8000 || w & 0xC000u16 == 0xC000,
            w & 0x3000u16 == 0 || w & 0x3000u16 == 0x1000 || w & 0x3000u16 == 0x2000 || w & 0x3000u16 == 0x3000,
{
    assert(w & 0xC000u16 == (w / 0x4000u16) * 0x4000u16) by (bit_vector);
    assert(w & 0x3000u16 == ((w / 0x1000u16) % 4u16) * 0x1000u16) by (bit_vector);
    assert(w & 0x0FFFu16 == w % 0x1000u16) by (bit_vector);
    assert(w & 0xC000u16 == 0 || w & 0xC000u16 == 0x4000 || w & 0xC000u16 == 0x8000 || w & 0xC000u16 == 0xC000) by (bit_vector);
    assert(w & 0x3000u16 == 0 || w & 0x3000u16 == 0x1000 || w & 0x3000u16 == 0x2000 || w & 0x3000u16 == 0x3000) by (bit_vector);
}

/// C14, direction 1: decode(encode(k, t, len)) == (k, t, len) unless it is the padding pattern
pub proof fn lemma_c14_decode_encode(k: PktType, t: LabelType, len: int)
    requires 0 <= len <= 4095,
    ensures
        0 <= hdr_word(k, t, len) <= 0xFFFF,
        hdr_is_padding(hdr_word(k, t, len)) <==> (k == PktType::IntermediateFragPkt && t == LabelType::SixBytesLabel),
        !(k == PktType::IntermediateFragPkt && t == LabelType::SixBytesLabel) ==> hdr_decode(hdr_word(k, t, len)) == Some((len as usize, k, t)),
{
}
/// C14, direction 2: encode(decode(w)) == w for every non-padding word; padding words decode to None
pub proof fn lemma_c14_encode_decode(w: int)
    requires 0 <= w <= 0xFFFF,
    ensures
        hdr_decode(w) is None <==> hdr_is_padding(w),
        hdr_decode(w) matches Some((len, k, t)) ==> hdr_word(k, t, len as int) == w && len <= 4095,
{
}

// =====================================================================================
// CRC-32/MPEG-2 (C12): poly 0x04C11DB7, init 0xFFFFFFFF, MSB first, no reflection, no final xor
// =====================================================================================
pub open spec fn crc_bit_step(c: u32) -> u32 { if c & 0x8000_0000u32 != 0 { (c << 1) ^ 0x04C1_1DB7u32 } else { c << 1 } }
pub open spec fn crc_bits(c: u32, n: nat) -> u32 decreases n { if n == 0 { c } else { crc_bits(crc_bit_step(c), (n - 1) as nat) } }
pub open spec fn crc_byte(c: u32, b: u8) -> u32 { crc_bits(c ^ ((b as u32) << 24), 8) }
pub open spec fn crc_fold(c: u32, s: Seq<u8>) -> u32 decreases s.len() {
    if s.len() == 0 { c } else { crc_byte(crc_fold(c, s.drop_last()), s.last()) } }
pub open spec fn crc_mpeg2(s: Seq<u8>) -> u32 { crc_fold(0xFFFF_FFFFu32, s) }
/// the byte string protected by the GSE CRC: total length | protocol type | label | PDU
pub open spec fn crc_input(pdu: Seq<u8>, protocol_type: u16, total_length: u16, label: Seq<u8>) -> Seq<u8> {
    be16(total_length) + be16(protocol_type) + label + pdu }


pub proof fn lemma_step_linear(x: u32, y: u32)
    ensures crc_bit_step(x ^ y) == crc_bit_step(x) ^ crc_bit_step(y)
{
    assert((if (x ^ y) & 0x8000_0000u32 != 0 { ((x ^ y) << 1) ^ 0x04C1_1DB7u32 } else { (x ^ y) << 1 })
        == (if x & 0x8000_0000u32 != 0 { (x << 1) ^ 0x04C1_1DB7u32 } else { x << 1 }) ^ (if y & 0x8000_0000u32 != 0 { (y << 1) ^ 0x04C1_1DB7u32 } else { y << 1 })) by (bit_vector);
}
pub proof fn lemma_bits_linear(x: u32, y: u32, n: nat)
    ensures crc_bits(x ^ y, n) == crc_bits(x, n) ^ crc_bits(y, n)
    decreases n
{
    if n > 0 { lemma_step_linear(x, y); lemma_bits_linear(crc_bit_step(x), crc_bit_step(y), (n - 1) as nat); }
}
pub proof fn lemma_bits_low(x: u32)
    requires x & 0xFF00_0000u32 == 0,
    ensures crc_bits(x, 8) == x << 8
{
    reveal_with_fuel(crc_bits, 9);
    assert(x & 0xFF00_0000u32 == 0 ==> ({
        let a1 = if x & 0x8000_0000u32 != 0 { (x << 1) ^ 0x04C1_1DB7u32 } else { x << 1 };
        let a2 = if a1 & 0x8000_0000u32 != 0 { (a1 << 1) ^ 0x04C1_1DB7u32 } else { a1 << 1 };
        let a3 = if a2 & 0x8000_0000u32 != 0 { (a2 << 1) ^ 0x04C1_1DB7u32 } else { a2 << 1 };
        let a4 = if a3 & 0x8000_0000u32 != 0 { (a3 << 1) ^ 0x04C1_1DB7u32 } else { a3 << 1 };
        let a5 = if a4 & 0x8000_0000u32 != 0 { (a4 << 1) ^ 0x04C1_1DB7u32 } else { a4 << 1 };
        let a6 = if a5 & 0x8000_0000u32 != 0 { (a5 << 1) ^ 0x04C1_1DB7u32 } else { a5 << 1 };
        let a7 = if a6 & 0x8000_0000u32 != 0 { (a6 << 1) ^ 0x04C1_1DB7u32 } else { a6 << 1 };
        let a8 = if a7 & 0x8000_0000u32 != 0 { (a7 << 1) ^ 0x04C1_1DB7u32 } else { a7 << 1 };
        a8 == x << 8 })) by (bit_vector);
}
/// the table-driven byte step equals eight bitwise rounds (for any table whose entry i is crc_bits(i << 24, 8))
pub proof fn lemma_byte_step(acc: u32, b: u8)
    ensures
        ((acc >> 24) ^ (b as u32)) < 256,
        (acc << 8) ^ crc_bits(((acc >> 24) ^ (b as u32)) << 24, 8) == crc_byte(acc, b),
{
    let hi = ((acc >> 24) ^ (b as u32)) << 24;
    let lo = acc & 0x00FF_FFFFu32;
    let bb = b as u32;
    assert(((acc >> 24) ^ bb) < 256) by (bit_vector) requires bb < 256;
    assert(acc ^ (bb << 24) == lo ^ hi) by (bit_vector)
        requires hi == ((acc >> 24) ^ bb) << 24, lo == acc & 0x00FF_FFFFu32, bb < 256;
    assert(lo & 0xFF00_0000u32 == 0 && lo << 8 == acc << 8) by (bit_vector) requires lo == acc & 0x00FF_FFFFu32;
    lemma_bits_low(lo);
    lemma_bits_linear(lo, hi, 8);
    assert(crc_bits(lo, 8) ^ crc_bits(hi, 8) == crc_bits(hi, 8) ^ crc_bits(lo, 8)) by {
        let p = crc_bits(lo, 8); let q = crc_bits(hi, 8);
        assert(p ^ q == q ^ p) by (bit_vector);
    }
    let p = acc << 8; let q = crc_bits(hi, 8);
    assert(p ^ q == q ^ p) by (bit_vector);
}
pub proof fn lemma_fold_append(c: u32, a: Seq<u8>, b: Seq<u8>)
    ensures crc_fold(c, a + b) == crc_fold(crc_fold(c, a), b)
    decreases b.len()
{
    if b.len() == 0 { assert(a + b =~= a); }
    else { assert((a + b).drop_last() =~= a + b.drop_last()); assert((a + b).last() == b.last()); lemma_fold_append(c, a, b.drop_last()); }
}
/// catalogue check value of CRC-32/MPEG-2: crc("123456789") = 0x0376E6E7
pub proof fn lemma_crc_check_value()
    ensures crc_mpeg2(seq![0x31u8, 0x32, 0x33, 0x34, 0x35, 0x36, 0x37, 0x38, 0x39]) == 0x0376_E6E7u32
{
    assert(crc_mpeg2(seq![0x31u8, 0x32, 0x33, 0x34, 0x35, 0x36, 0x37, 0x38, 0x39]) == 0x0376_E6E7u32) by (compute_only);
}

// @MODULE_TAIL
} // verus!
