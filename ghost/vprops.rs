// Ghost library: the independent reading of ETSI TS 102 606 / RFC 5163 and of CRC-32/MPEG-2
// against which the contracts are stated, and the lemmas that turn per-function contracts
// into the listed properties.  Spec and proof code only: nothing here is executable.
use vstd::prelude::*;
use crate::vshim::*;
use crate::label::{Label, LabelType};
use crate::pkt_type::PktType;
verus! {

// =====================================================================================
// fixed header (C14)
// =====================================================================================
pub open spec fn s_bit(k: PktType) -> int { match k { PktType::CompletePkt => 1, PktType::FirstFragPkt => 1, _ => 0 } }
pub open spec fn e_bit(k: PktType) -> int { match k { PktType::CompletePkt => 1, PktType::EndFragPkt => 1, _ => 0 } }
pub open spec fn lt_code(t: LabelType) -> int { match t { LabelType::SixBytesLabel => 0, LabelType::ThreeBytesLabel => 1, LabelType::Broadcast => 2, LabelType::ReUse => 3 } }
pub open spec fn kind_of(s: int, e: int) -> PktType {
    if s == 1 && e == 1 { PktType::CompletePkt } else if s == 1 { PktType::FirstFragPkt } else if e == 1 { PktType::EndFragPkt } else { PktType::IntermediateFragPkt } }
pub open spec fn ltype_of(t: int) -> LabelType {
    if t == 0 { LabelType::SixBytesLabel } else if t == 1 { LabelType::ThreeBytesLabel } else if t == 2 { LabelType::Broadcast } else { LabelType::ReUse } }

/// S | E | LT(2) | GSE length(12), most significant bit first
pub open spec fn hdr_word(k: PktType, t: LabelType, len: int) -> int {
    s_bit(k) * 0x8000 + e_bit(k) * 0x4000 + lt_code(t) * 0x1000 + len % 0x1000 }
pub open spec fn hdr_s(w: int) -> int { (w / 0x8000) % 2 }
pub open spec fn hdr_e(w: int) -> int { (w / 0x4000) % 2 }
pub open spec fn hdr_t(w: int) -> int { (w / 0x1000) % 4 }
pub open spec fn hdr_len(w: int) -> int { w % 0x1000 }
/// padding <=> S = 0, E = 0, LT = 00
pub open spec fn hdr_is_padding(w: int) -> bool { w / 0x1000 == 0 }
pub open spec fn hdr_decode(w: int) -> Option<(usize, PktType, LabelType)> {
    if hdr_is_padding(w) { None } else { Some((hdr_len(w) as usize, kind_of(hdr_s(w), hdr_e(w)), ltype_of(hdr_t(w)))) } }

pub proof fn lemma_hdr_mask(a: u16, b: u16, c: u16)
    requires a == 0 || a == 0x4000 || a == 0x8000 || a == 0xC000, b == 0 || b == 0x1000 || b == 0x2000 || b == 0x3000,
    ensures ((a & 0xC000u16) | (b & 0x3000u16) | (c & 0x0FFFu16)) as int == a + b + (c as int) % 0x1000,
        // robustness against reordering edits: `&` is commutative, and the three fields do not overlap, so any order and
        // grouping of the `|` gives the same word
        0xC000u16 & a == a & 0xC000u16 && 0x3000u16 & b == b & 0x3000u16 && 0x0FFFu16 & c == c & 0x0FFFu16,
        ({ let x = a & 0xC000u16; let y = b & 0x3000u16; let z = c & 0x0FFFu16; let w = (x | y) | z;
           (x | z) | y == w && (y | x) | z == w && (y | z) | x == w && (z | x) | y == w && (z | y) | x == w
           && x | (y | z) == w && x | (z | y) == w && y | (x | z) == w && y | (z | x) == w && z | (x | y) == w && z | (y | x) == w }),
{
    assert((a & 0xC000u16) | (b & 0x3000u16) | (c & 0x0FFFu16) == a + b + (c % 0x1000u16)) by (bit_vector)
        requires a == 0 || a == 0x4000 || a == 0x8000 || a == 0xC000, b == 0 || b == 0x1000 || b == 0x2000 || b == 0x3000;
    assert(0xC000u16 & a == a & 0xC000u16 && 0x3000u16 & b == b & 0x3000u16 && 0x0FFFu16 & c == c & 0x0FFFu16) by (bit_vector);
    let x = a & 0xC000u16; let y = b & 0x3000u16; let z = c & 0x0FFFu16; let w = (x | y) | z;
    assert((x | z) | y == w && (y | x) | z == w && (y | z) | x == w && (z | x) | y == w && (z | y) | x == w
        && x | (y | z) == w && x | (z | y) == w && y | (x | z) == w && y | (z | x) == w && z | (x | y) == w && z | (y | x) == w) by (bit_vector)
        requires w == (x | y) | z;
}
pub proof fn lemma_hdr_fields(w: u16)
    ensures (w & 0xC000u16) as int == (w as int / 0x4000) * 0x4000,
            (w & 0x3000u16) as int == ((w as int / 0x1000) % 4) * 0x1000,
            (w & 0x0FFFu16) as int == (w as int) % 0x1000,
            w & 0xC000u16 == 0 || w & 0xC000u16 == 0x4000 || w & 0xC000u16 == 0x8000 || w & 0xC000u16 == 0xC000,
            w & 0x3000u16 == 0 || w & 0x3000u16 == 0x1000 || w & 0x3000u16 == 0x2000 || w & 0x3000u16 == 0x3000,
{
    assert(w & 0xC000u16 == (w / 0x4000u16) * 0x4000u16) by (bit_vector);
    assert(w & 0x3000u16 == ((w / 0x1000u16) % 4u16) * 0x1000u16) by (bit_vector);
    assert(w & 0x0FFFu16 == w % 0x1000u16) by (bit_vector);
    assert(w & 0xC000u16 == 0 || w & 0xC000u16 == 0x4000 || w & 0xC000u16 == 0x8000 || w & 0xC000u16 == 0xC000) by (bit_vector);
    assert(w & 0x3000u16 == 0 || w & 0x3000u16 == 0x1000 || w & 0x3000u16 == 0x2000 || w & 0x3000u16 == 0x3000) by (bit_vector);
}

/// C14, direction 1: decode(encode(k, t, len)) == (k, t, len) unless it is the padding pattern
pub proof fn lemma_c14_decode_encode(k: PktType, t: LabelType, len: int)
    requires 0 <= len <= 4095,
    ensures
        0 <= hdr_word(k, t, len) <= 0xFFFF,
        hdr_is_padding(hdr_word(k, t, len)) <==> (k == PktType::IntermediateFragPkt && t == LabelType::SixBytesLabel),
        !(k == PktType::IntermediateFragPkt && t == LabelType::SixBytesLabel) ==> hdr_decode(hdr_word(k, t, len)) == Some((len as usize, k, t)),
{
}
/// C14, direction 2: encode(decode(w)) == w for every non-padding word; padding words decode to None
pub proof fn lemma_c14_encode_decode(w: int)
    requires 0 <= w <= 0xFFFF,
    ensures
        hdr_decode(w) is None <==> hdr_is_padding(w),
        hdr_decode(w) matches Some((len, k, t)) ==> hdr_word(k, t, len as int) == w && len <= 4095,
{
}


// =====================================================================================
// labels
// =====================================================================================
pub open spec fn ll(l: Label) -> int { match l { Label::SixBytesLabel(_) => 6, Label::ThreeBytesLabel(_) => 3, _ => 0 } }
pub open spec fn lbytes(l: Label) -> Seq<u8> { match l { Label::SixBytesLabel(b) => b@, Label::ThreeBytesLabel(b) => b@, _ => Seq::empty() } }
pub open spec fn ltype(l: Label) -> LabelType { match l {
    Label::SixBytesLabel(_) => LabelType::SixBytesLabel, Label::ThreeBytesLabel(_) => LabelType::ThreeBytesLabel,
    Label::Broadcast => LabelType::Broadcast, Label::ReUse => LabelType::ReUse } }
pub open spec fn lt_len(t: LabelType) -> int { match t { LabelType::SixBytesLabel => 6, LabelType::ThreeBytesLabel => 3, _ => 0 } }
pub open spec fn is_addr(l: Label) -> bool { l is SixBytesLabel || l is ThreeBytesLabel }
pub open spec fn zero6() -> Label { Label::SixBytesLabel([0u8, 0u8, 0u8, 0u8, 0u8, 0u8]) }
pub open spec fn is_zero6(l: Label) -> bool { l == zero6() }
/// the forbidden label is exactly the 6-byte label whose bytes are all zero
pub proof fn lemma_zero6(l: Label)
    ensures is_zero6(l) <==> (l matches Label::SixBytesLabel(b) && forall|i: int| 0 <= i < 6 ==> b@[i] == 0u8)
{
    let z = [0u8, 0u8, 0u8, 0u8, 0u8, 0u8];
    match l { Label::SixBytesLabel(b) => { if forall|i: int| 0 <= i < 6 ==> b@[i] == 0u8 { assert(b@ =~= z@); assert(b == z); } else { assert(b != z) by { if b == z { assert(forall|i: int| 0 <= i < 6 ==> z@[i] == 0u8); } } } } _ => {} }
}
/// the label carried by `s` for label type `t` (s has exactly lt_len(t) bytes)
pub open spec fn parse_label(t: LabelType, s: Seq<u8>) -> Label { match t {
    LabelType::SixBytesLabel => Label::SixBytesLabel([s[0], s[1], s[2], s[3], s[4], s[5]]),
    LabelType::ThreeBytesLabel => Label::ThreeBytesLabel([s[0], s[1], s[2]]),
    LabelType::Broadcast => Label::Broadcast,
    LabelType::ReUse => Label::ReUse } }
pub proof fn lemma_parse_label_inv(l: Label)
    ensures parse_label(ltype(l), lbytes(l)) == l, lbytes(l).len() == ll(l), ll(l) == lt_len(ltype(l))
{
    match l {
        Label::SixBytesLabel(a) => { assert([a@[0], a@[1], a@[2], a@[3], a@[4], a@[5]] =~= a); }
        Label::ThreeBytesLabel(a) => { assert([a@[0], a@[1], a@[2]] =~= a); }
        _ => {}
    }
}


// =====================================================================================
// wire formats (ETSI TS 102 606 section 4.2), field-wise: what a parser reading the standard sees
// =====================================================================================
pub open spec fn hdr_bytes(k: PktType, t: LabelType, gse_len: int) -> Seq<u8> { be16(hdr_word(k, t, gse_len) as u16) }
/// complete packet: header | protocol type | label | PDU
pub open spec fn complete_fields(b: Seq<u8>, n: int, ptype: u16, lw: Label, pdu: Seq<u8>) -> bool {
    &&& n == 4 + ll(lw) + pdu.len() && n <= b.len() && n - 2 <= 4095
    &&& b.subrange(0, 2) =~= hdr_bytes(PktType::CompletePkt, ltype(lw), n - 2)
    &&& b.subrange(2, 4) =~= be16(ptype)
    &&& b.subrange(4, 4 + ll(lw)) =~= lbytes(lw)
    &&& b.subrange(4 + ll(lw), n) =~= pdu
}
/// first fragment: header | frag id | total length | protocol type | label | payload
pub open spec fn first_fields(b: Seq<u8>, n: int, fid: u8, total: int, ptype: u16, lw: Label, payload: Seq<u8>) -> bool {
    &&& n == 7 + ll(lw) + payload.len() && n <= b.len() && n - 2 <= 4095 && 0 <= total <= 0xFFFF
    &&& b.subrange(0, 2) =~= hdr_bytes(PktType::FirstFragPkt, ltype(lw), n - 2)
    &&& b[2] == fid
    &&& b.subrange(3, 5) =~= be16(total as u16)
    &&& b.subrange(5, 7) =~= be16(ptype)
    &&& b.subrange(7, 7 + ll(lw)) =~= lbytes(lw)
    &&& b.subrange(7 + ll(lw), n) =~= payload
}
/// intermediate fragment: header (label type 11) | frag id | payload
pub open spec fn inter_fields(b: Seq<u8>, n: int, fid: u8, payload: Seq<u8>) -> bool {
    &&& n == 3 + payload.len() && n <= b.len() && n - 2 <= 4095
    &&& b.subrange(0, 2) =~= hdr_bytes(PktType::IntermediateFragPkt, LabelType::ReUse, n - 2)
    &&& b[2] == fid
    &&& b.subrange(3, n) =~= payload
}
/// end fragment: header (label type 11) | frag id | payload | CRC-32
pub open spec fn end_fields(b: Seq<u8>, n: int, fid: u8, payload: Seq<u8>, crc: u32) -> bool {
    &&& n == 7 + payload.len() && n <= b.len() && n - 2 <= 4095
    &&& b.subrange(0, 2) =~= hdr_bytes(PktType::EndFragPkt, LabelType::ReUse, n - 2)
    &&& b[2] == fid
    &&& b.subrange(3, 3 + payload.len() as int) =~= payload
    &&& b.subrange(3 + payload.len() as int, n) =~= be32(crc)
}
/// the label the packet in `b` carries, given the label the caller passed: re-use marker iff the label type bits are 11
pub open spec fn wire_label(b: Seq<u8>, label_in: Label) -> Label {
    if hdr_t(from_be16(b.subrange(0, 2)) as int) == 3 { Label::ReUse } else { label_in } }


pub proof fn lemma_be16_inv(x: u16) ensures from_be16(be16(x)) == x, be16(x).len() == 2 {
    assert((((x >> 8) as u8 as u16) << 8) | ((x & 0xff) as u8 as u16) == x) by (bit_vector);
}
pub proof fn lemma_be32_inv(x: u32) ensures from_be32(be32(x)) == x, be32(x).len() == 4 {
    assert(((((x >> 24) as u8 as u32) << 24) | ((((x >> 16) & 0xff) as u8 as u32) << 16) | ((((x >> 8) & 0xff) as u8 as u32) << 8) | ((x & 0xff) as u8 as u32)) == x) by (bit_vector);
}
/// the header written in front of a packet tells which label was written
pub proof fn lemma_wire_label(b: Seq<u8>, k: PktType, lw: Label, label_in: Label, gse_len: int)
    requires b.len() >= 2, b.subrange(0, 2) =~= hdr_bytes(k, ltype(lw), gse_len), 0 <= gse_len <= 4095, lw == label_in || lw == Label::ReUse,
    ensures wire_label(b, label_in) == lw, hdr_decode(from_be16(b.subrange(0, 2)) as int) == hdr_decode(hdr_word(k, ltype(lw), gse_len))
{
    lemma_be16_inv(hdr_word(k, ltype(lw), gse_len) as u16);
    lemma_c14_decode_encode(k, ltype(lw), gse_len);
}

// =====================================================================================
// sender: label re-use policy (C04, C15) and size decisions (C01, C02, C06, C09, C11, C18)
// =====================================================================================
pub struct EncView { pub activated: bool, pub max: int, pub cur: int, pub last: Option<Label> }
/// a substitution of `label` by the re-use marker is permitted in state e (C15 (d), C04)
pub open spec fn may_substitute(e: EncView, label: Label) -> bool { e.activated && e.last == Some(label) && is_addr(label) }
/// what any implementation of the re-use decision must satisfy: `w` is the label written for `label`, e2 the next state
pub open spec fn label_step_ok(e: EncView, label: Label, w: Label, e2: EncView) -> bool {
    &&& e2.activated == e.activated && e2.max == e.max
    &&& (w == label || (w == Label::ReUse && may_substitute(e, label)))
    &&& (w == Label::ReUse && label != Label::ReUse && e.max > 0 ==> e.cur < e.max && e2.cur == e.cur + 1)
    &&& 0 <= e2.cur && (e.max > 0 && e.cur <= e.max ==> e2.cur <= e.max)
    &&& (w == Label::ReUse && label == Label::ReUse ==> e2.cur >= e.cur)
    &&& (e.activated ==> e2.last == (if is_addr(w) { Some(w) } else if w == Label::Broadcast { None } else { e.last }))
}
/// C15 invariant: g = number of consecutive packets whose label the encapsulator replaced; prev = label carried by the
/// last start/complete packet since the last reset / broadcast / (re-)enabling, None if there is none
pub open spec fn pol(e: EncView, g: int, prev: Option<Label>) -> bool {
    &&& 0 <= g && 0 <= e.cur && 0 <= e.max
    &&& (e.max > 0 ==> g <= e.cur && e.cur <= e.max)
    &&& (e.activated ==> (e.last matches Some(l) ==> prev == Some(l)))
    &&& (prev matches Some(l) ==> is_addr(l))
}
pub open spec fn prev_after(prev: Option<Label>, w: Label) -> Option<Label> {
    if is_addr(w) { Some(w) } else if w == Label::Broadcast { None } else { prev } }
pub open spec fn run_after(g: int, label: Label, w: Label) -> int {
    if w == Label::ReUse && label != Label::ReUse { g + 1 } else if w == Label::ReUse { g } else { 0 } }
/// C15: every successful start/complete packet preserves the invariant and respects the four policy clauses
pub proof fn lemma_c15_step(e: EncView, g: int, prev: Option<Label>, label: Label, w: Label, e2: EncView)
    requires pol(e, g, prev), label_step_ok(e, label, w, e2),
    ensures
        pol(e2, run_after(g, label, w), prev_after(prev, w)),
        !e.activated ==> w == label,
        e.max > 0 && w == Label::ReUse && label != Label::ReUse ==> g + 1 <= e.max,
        w == Label::ReUse && label != Label::ReUse ==> prev == Some(label) && is_addr(label),
{ }


/// C15 over whole histories: operations on the sender's re-use state, as constrained by the contracts of the real methods
pub enum SOp {
    /// a successful encap / encap_ext: label passed, label written, state after (clause E.label / X.label)
    Sent { label: Label, w: Label, e2: EncView },
    /// a failed encap / encap_ext / any encap_frag: state unchanged (clauses E.err_atomic / X.err_atomic; encap_frag takes &self)
    Unchanged,
    /// reset_last_label (S.reset), disable (S.disable), enable (S.enable), enable with max (S.enable_max): state after
    Reset { e2: EncView }, Disable { e2: EncView }, Enable { e2: EncView },
}
pub open spec fn sop_ok(e: EncView, op: SOp) -> bool { match op {
    SOp::Sent { label, w, e2 } => label_step_ok(e, label, w, e2),
    SOp::Unchanged => true,
    SOp::Reset { e2 } => e2 == (EncView { last: None, ..e }),
    // only what the properties need: disable disables; (re-)enabling forgets the label; the counter stays within its bound (inv())
    SOp::Disable { e2 } => !e2.activated && 0 <= e2.cur && 0 <= e2.max && (e2.max > 0 ==> e2.cur <= e2.max),
    SOp::Enable { e2 } => e2.last.is_none() && 0 <= e2.cur && 0 <= e2.max && (e2.max > 0 ==> e2.cur <= e2.max),
} }
pub open spec fn sop_next(e: EncView, op: SOp) -> EncView { match op {
    SOp::Sent { e2, .. } => e2, SOp::Unchanged => e, SOp::Reset { e2 } => e2, SOp::Disable { e2 } => e2, SOp::Enable { e2 } => e2 } }
/// ghost observers: run length of consecutive substituted packets, label carried by the last start/complete packet
pub open spec fn sop_run(g: int, op: SOp) -> int { match op { SOp::Sent { label, w, .. } => run_after(g, label, w), SOp::Unchanged => g, _ => 0 } }
pub open spec fn sop_prev(prev: Option<Label>, op: SOp) -> Option<Label> { match op {
    SOp::Sent { w, .. } => prev_after(prev, w), SOp::Unchanged => prev, SOp::Reset { .. } => None,
    // a receiver that is not reset keeps its memory across disable/enable: prev is unchanged
    SOp::Disable { .. } => prev, SOp::Enable { .. } => prev } }
pub open spec fn trace_ok(e: EncView, ops: Seq<SOp>) -> bool decreases ops.len() {
    ops.len() == 0 || (sop_ok(e, ops[0]) && trace_ok(sop_next(e, ops[0]), ops.subrange(1, ops.len() as int))) }
/// C15: along every history the invariant holds, hence at every successful packet: (a) disabled => no substitution,
/// (b) at most max consecutive substitutions, (c)/(d) substitution only for the 3/6-byte label carried by the preceding start/complete packet
pub proof fn lemma_c15_trace(e: EncView, g: int, prev: Option<Label>, ops: Seq<SOp>, k: int)
    requires pol(e, g, prev), trace_ok(e, ops), 0 <= k < ops.len(),
    ensures ({ let (ek, gk, pk) = state_at(e, g, prev, ops, k);
        pol(ek, gk, pk) && (ops[k] matches SOp::Sent { label, w, e2 } ==> (
            (!ek.activated ==> w == label)
            && (ek.max > 0 && w == Label::ReUse && label != Label::ReUse ==> gk + 1 <= ek.max)
            && (w == Label::ReUse && label != Label::ReUse ==> pk == Some(label) && is_addr(label)))) })
    decreases k
{
    if k > 0 {
        let op = ops[0];
        match op { SOp::Sent { label, w, e2 } => { lemma_c15_step(e, g, prev, label, w, e2); } _ => {} }
        let rest = ops.subrange(1, ops.len() as int);
        assert(rest[k - 1] == ops[k]);
        lemma_c15_trace(sop_next(e, op), sop_run(g, op), sop_prev(prev, op), rest, k - 1);
    } else {
        match ops[0] { SOp::Sent { label, w, e2 } => { lemma_c15_step(e, g, prev, label, w, e2); } _ => {} }
    }
}
pub open spec fn state_at(e: EncView, g: int, prev: Option<Label>, ops: Seq<SOp>, k: int) -> (EncView, int, Option<Label>) decreases k {
    if k <= 0 || ops.len() == 0 { (e, g, prev) } else { state_at(sop_next(e, ops[0]), sop_run(g, ops[0]), sop_prev(prev, ops[0]), ops.subrange(1, ops.len() as int), k - 1) } }

pub enum Dec { ErrLabel, ErrPtype, ErrSize, ErrPduLen, Complete { n: int }, First { n: int, k: int } }
pub open spec fn min_int(a: int, b: int) -> int { if a < b { a } else { b } }
/// what encap / encap_preview must answer for a PDU of pdu_len bytes, the label `lw` as written, a buffer of buf bytes
pub open spec fn size_decision(lw: Label, label_in: Label, ptype: u16, pdu_len: int, buf: int) -> Dec {
    if is_zero6(label_in) { Dec::ErrLabel }
    else if 0x100 <= ptype < 0x600 { Dec::ErrPtype }
    else if buf >= 4 + ll(lw) + pdu_len && 2 + ll(lw) + pdu_len <= 4095 { Dec::Complete { n: 4 + ll(lw) + pdu_len } }
    else if buf < 7 + ll(lw) { Dec::ErrSize }
    else if pdu_len + 2 + ll(lw) > 0xFFFF { Dec::ErrPduLen }
    else { let k = min_int(buf - 7 - ll(lw), 4095 - 5 - ll(lw)); Dec::First { n: 7 + ll(lw) + k, k } }
}
pub enum FDec { ErrCtx, ErrSize, End { n: int }, Inter { n: int, k: int } }
/// what encap_frag / encap_frag_preview must answer with ctx_len bytes already sent
pub open spec fn frag_decision(pdu_len: int, ctx_len: int, buf: int) -> FDec {
    if ctx_len > pdu_len { FDec::ErrCtx } else {
        let rem = pdu_len - ctx_len;
        if buf >= rem + 7 && rem + 5 <= 4095 { FDec::End { n: rem + 7 } }
        else if buf > 3 && rem >= 1 { let k = min_int(min_int(buf - 3, rem), 4094); FDec::Inter { n: 3 + k, k } }
        else { FDec::ErrSize } }
}
/// C02/C06: a first fragment is a proper prefix, fits the buffer and the 12-bit length
pub proof fn lemma_first_is_proper_prefix(lw: Label, label_in: Label, ptype: u16, pdu_len: int, buf: int)
    requires 0 <= pdu_len, 0 <= buf, size_decision(lw, label_in, ptype, pdu_len, buf) is First,
    ensures ({ let d = size_decision(lw, label_in, ptype, pdu_len, buf);
        d matches Dec::First { n, k } && 0 <= k < pdu_len && n <= buf && n - 2 <= 4095 && n == 7 + ll(lw) + k })
{ }
/// C02: a buffer of 13 bytes or more is never refused for lack of room by the first call
pub proof fn lemma_13_bytes_suffice(lw: Label, label_in: Label, ptype: u16, pdu_len: int, buf: int)
    requires 0 <= pdu_len, buf >= 13,
    ensures !(size_decision(lw, label_in, ptype, pdu_len, buf) is ErrSize)
{ }
/// C11 / C02: with at least 7 bytes the continuation always makes progress
pub proof fn lemma_frag_progress(pdu_len: int, ctx_len: int, buf: int)
    requires 0 <= ctx_len <= pdu_len, buf >= 7,
    ensures ({ let d = frag_decision(pdu_len, ctx_len, buf);
        (d matches FDec::End { n } && n <= buf && n - 2 <= 4095)
        || (d matches FDec::Inter { n, k } && 1 <= k <= pdu_len - ctx_len && n <= buf && n - 2 <= 4095) })
{ }
/// C11: the useless buffer is rejected: an intermediate fragment always carries at least one byte
pub proof fn lemma_frag_nonempty(pdu_len: int, ctx_len: int, buf: int)
    requires 0 <= ctx_len <= pdu_len, 0 <= buf,
    ensures frag_decision(pdu_len, ctx_len, buf) matches FDec::Inter { n, k } ==> 1 <= k <= pdu_len - ctx_len && n == 3 + k && n <= buf && n - 2 <= 4095,
            frag_decision(pdu_len, ctx_len, buf) matches FDec::End { n } ==> n == pdu_len - ctx_len + 7 && n <= buf && n - 2 <= 4095,
{ }
/// C11: any schedule of buffers >= 7 finishes within (remaining + 1) calls
pub open spec fn runs_to_end(pdu_len: int, ctx_len: int, bufs: Seq<int>) -> bool decreases bufs.len() {
    if bufs.len() == 0 { false } else { match frag_decision(pdu_len, ctx_len, bufs[0]) {
        FDec::End { .. } => true,
        FDec::Inter { k, .. } => runs_to_end(pdu_len, ctx_len + k, bufs.subrange(1, bufs.len() as int)),
        _ => false } } }
pub proof fn lemma_c11_finish(pdu_len: int, ctx_len: int, bufs: Seq<int>)
    requires 0 <= ctx_len <= pdu_len, bufs.len() >= pdu_len - ctx_len + 1, forall|i: int| 0 <= i < bufs.len() ==> bufs[i] >= 7,
    ensures runs_to_end(pdu_len, ctx_len, bufs)
    decreases bufs.len()
{
    lemma_frag_progress(pdu_len, ctx_len, bufs[0]);
    match frag_decision(pdu_len, ctx_len, bufs[0]) {
        FDec::Inter { n, k } => {
            let rest = bufs.subrange(1, bufs.len() as int);
            assert forall|i: int| 0 <= i < rest.len() implies rest[i] >= 7 by { assert(rest[i] == bufs[i + 1]); }
            lemma_c11_finish(pdu_len, ctx_len + k, rest);
        }
        _ => {}
    }
}
/// C11: the payloads produced over any schedule (rejected buffers skipped) are consecutive slices whose concatenation is the rest of the PDU
pub open spec fn payloads(pdu: Seq<u8>, ctx_len: int, bufs: Seq<int>) -> Seq<u8> decreases bufs.len() {
    if bufs.len() == 0 { Seq::empty() } else { match frag_decision(pdu.len() as int, ctx_len, bufs[0]) {
        FDec::End { .. } => pdu.subrange(ctx_len, pdu.len() as int),
        FDec::Inter { k, .. } => pdu.subrange(ctx_len, ctx_len + k) + payloads(pdu, ctx_len + k, bufs.subrange(1, bufs.len() as int)),
        _ => payloads(pdu, ctx_len, bufs.subrange(1, bufs.len() as int)) } } }
pub open spec fn ends_skipping(pdu_len: int, ctx_len: int, bufs: Seq<int>) -> bool decreases bufs.len() {
    if bufs.len() == 0 { false } else { match frag_decision(pdu_len, ctx_len, bufs[0]) {
        FDec::End { .. } => true,
        FDec::Inter { k, .. } => ends_skipping(pdu_len, ctx_len + k, bufs.subrange(1, bufs.len() as int)),
        _ => ends_skipping(pdu_len, ctx_len, bufs.subrange(1, bufs.len() as int)) } } }
pub proof fn lemma_c11_partition(pdu: Seq<u8>, ctx_len: int, bufs: Seq<int>)
    requires 0 <= ctx_len <= pdu.len(), ends_skipping(pdu.len() as int, ctx_len, bufs), forall|i: int| 0 <= i < bufs.len() ==> bufs[i] >= 0,
    ensures payloads(pdu, ctx_len, bufs) =~= pdu.subrange(ctx_len, pdu.len() as int)
    decreases bufs.len()
{
    if bufs.len() > 0 {
        lemma_frag_nonempty(pdu.len() as int, ctx_len, bufs[0]);
        let rest = bufs.subrange(1, bufs.len() as int);
        assert forall|i: int| 0 <= i < rest.len() implies rest[i] >= 0 by { assert(rest[i] == bufs[i + 1]); }
        match frag_decision(pdu.len() as int, ctx_len, bufs[0]) {
            FDec::End { .. } => {}
            FDec::Inter { n, k } => { lemma_c11_partition(pdu, ctx_len + k, rest); }
            _ => { lemma_c11_partition(pdu, ctx_len, rest); }
        }
    }
}

// =====================================================================================
// CRC-32/MPEG-2 (C12): poly 0x04C11DB7, init 0xFFFFFFFF, MSB first, no reflection, no final xor
// =====================================================================================
pub open spec fn crc_bit_step(c: u32) -> u32 { if c & 0x8000_0000u32 != 0 { (c << 1) ^ 0x04C1_1DB7u32 } else { c << 1 } }
pub open spec fn crc_bits(c: u32, n: nat) -> u32 decreases n { if n == 0 { c } else { crc_bits(crc_bit_step(c), (n - 1) as nat) } }
pub open spec fn crc_byte(c: u32, b: u8) -> u32 { crc_bits(c ^ ((b as u32) << 24), 8) }
pub open spec fn crc_fold(c: u32, s: Seq<u8>) -> u32 decreases s.len() {
    if s.len() == 0 { c } else { crc_byte(crc_fold(c, s.drop_last()), s.last()) } }
pub open spec fn crc_mpeg2(s: Seq<u8>) -> u32 { crc_fold(0xFFFF_FFFFu32, s) }
/// the byte string protected by the GSE CRC: total length | protocol type | label | PDU
pub open spec fn crc_input(pdu: Seq<u8>, protocol_type: u16, total_length: u16, label: Seq<u8>) -> Seq<u8> {
    be16(total_length) + be16(protocol_type) + label + pdu }


pub proof fn lemma_step_linear(x: u32, y: u32)
    ensures crc_bit_step(x ^ y) == crc_bit_step(x) ^ crc_bit_step(y)
{
    assert((if (x ^ y) & 0x8000_0000u32 != 0 { ((x ^ y) << 1) ^ 0x04C1_1DB7u32 } else { (x ^ y) << 1 })
        == (if x & 0x8000_0000u32 != 0 { (x << 1) ^ 0x04C1_1DB7u32 } else { x << 1 }) ^ (if y & 0x8000_0000u32 != 0 { (y << 1) ^ 0x04C1_1DB7u32 } else { y << 1 })) by (bit_vector);
}
pub proof fn lemma_bits_linear(x: u32, y: u32, n: nat)
    ensures crc_bits(x ^ y, n) == crc_bits(x, n) ^ crc_bits(y, n)
    decreases n
{
    if n > 0 { lemma_step_linear(x, y); lemma_bits_linear(crc_bit_step(x), crc_bit_step(y), (n - 1) as nat); }
}
pub proof fn lemma_bits_low(x: u32)
    requires x & 0xFF00_0000u32 == 0,
    ensures crc_bits(x, 8) == x << 8
{
    reveal_with_fuel(crc_bits, 9);
    assert(x & 0xFF00_0000u32 == 0 ==> ({
        let a1 = if x & 0x8000_0000u32 != 0 { (x << 1) ^ 0x04C1_1DB7u32 } else { x << 1 };
        let a2 = if a1 & 0x8000_0000u32 != 0 { (a1 << 1) ^ 0x04C1_1DB7u32 } else { a1 << 1 };
        let a3 = if a2 & 0x8000_0000u32 != 0 { (a2 << 1) ^ 0x04C1_1DB7u32 } else { a2 << 1 };
        let a4 = if a3 & 0x8000_0000u32 != 0 { (a3 << 1) ^ 0x04C1_1DB7u32 } else { a3 << 1 };
        let a5 = if a4 & 0x8000_0000u32 != 0 { (a4 << 1) ^ 0x04C1_1DB7u32 } else { a4 << 1 };
        let a6 = if a5 & 0x8000_0000u32 != 0 { (a5 << 1) ^ 0x04C1_1DB7u32 } else { a5 << 1 };
        let a7 = if a6 & 0x8000_0000u32 != 0 { (a6 << 1) ^ 0x04C1_1DB7u32 } else { a6 << 1 };
        let a8 = if a7 & 0x8000_0000u32 != 0 { (a7 << 1) ^ 0x04C1_1DB7u32 } else { a7 << 1 };
        a8 == x << 8 })) by (bit_vector);
}
/// the table-driven byte step equals eight bitwise rounds (for any table whose entry i is crc_bits(i << 24, 8))
pub proof fn lemma_byte_step(acc: u32, b: u8)
    ensures
        ((acc >> 24) ^ (b as u32)) < 256,
        (acc << 8) ^ crc_bits(((acc >> 24) ^ (b as u32)) << 24, 8) == crc_byte(acc, b),
{
    let hi = ((acc >> 24) ^ (b as u32)) << 24;
    let lo = acc & 0x00FF_FFFFu32;
    let bb = b as u32;
    assert(((acc >> 24) ^ bb) < 256) by (bit_vector) requires bb < 256;
    assert(acc ^ (bb << 24) == lo ^ hi) by (bit_vector)
        requires hi == ((acc >> 24) ^ bb) << 24, lo == acc & 0x00FF_FFFFu32, bb < 256;
    assert(lo & 0xFF00_0000u32 == 0 && lo << 8 == acc << 8) by (bit_vector) requires lo == acc & 0x00FF_FFFFu32;
    lemma_bits_low(lo);
    lemma_bits_linear(lo, hi, 8);
    assert(crc_bits(lo, 8) ^ crc_bits(hi, 8) == crc_bits(hi, 8) ^ crc_bits(lo, 8)) by {
        let p = crc_bits(lo, 8); let q = crc_bits(hi, 8);
        assert(p ^ q == q ^ p) by (bit_vector);
    }
    let p = acc << 8; let q = crc_bits(hi, 8);
    assert(p ^ q == q ^ p) by (bit_vector);
}
pub proof fn lemma_fold_append(c: u32, a: Seq<u8>, b: Seq<u8>)
    ensures crc_fold(c, a + b) == crc_fold(crc_fold(c, a), b)
    decreases b.len()
{
    if b.len() == 0 { assert(a + b =~= a); }
    else { assert((a + b).drop_last() =~= a + b.drop_last()); assert((a + b).last() == b.last()); lemma_fold_append(c, a, b.drop_last()); }
}
// =====================================================================================
// C03: burst-error detection of CRC-32/MPEG-2, proved on the bit-serial reading of the same register
// (the register transition is linear over GF(2) and injective because the polynomial has a non-zero constant term)
// =====================================================================================
pub open spec fn bit31(bit: bool) -> u32 { if bit { 0x8000_0000u32 } else { 0u32 } }
/// one input bit, MSB first: the bit is added to the top of the register, then the register is shifted through the polynomial
pub open spec fn bstep(c: u32, bit: bool) -> u32 { crc_bit_step(c ^ bit31(bit)) }
pub open spec fn bfold(c: u32, bits: Seq<bool>) -> u32 decreases bits.len() {
    if bits.len() == 0 { c } else { bstep(bfold(c, bits.drop_last()), bits.last()) } }
pub open spec fn byte_bits(b: u8) -> Seq<bool> {
    seq![b & 0x80u8 != 0, b & 0x40u8 != 0, b & 0x20u8 != 0, b & 0x10u8 != 0, b & 0x08u8 != 0, b & 0x04u8 != 0, b & 0x02u8 != 0, b & 0x01u8 != 0] }
pub open spec fn bits_of(s: Seq<u8>) -> Seq<bool> decreases s.len() {
    if s.len() == 0 { Seq::empty() } else { bits_of(s.drop_last()) + byte_bits(s.last()) } }
pub open spec fn zbits(n: nat) -> Seq<bool> { Seq::new(n, |i: int| false) }

pub proof fn lemma_bfold_append(c: u32, x: Seq<bool>, y: Seq<bool>)
    ensures bfold(c, x + y) == bfold(bfold(c, x), y)
    decreases y.len()
{
    if y.len() == 0 { assert(x + y =~= x); }
    else { assert((x + y).drop_last() =~= x + y.drop_last()); assert((x + y).last() == y.last()); lemma_bfold_append(c, x, y.drop_last()); }
}
pub open spec fn bitval(bit: bool) -> u32 { if bit { 1u32 } else { 0u32 } }
/// the first (at most 32) bits, left-aligned in a 32-bit word
pub open spec fn aval(bits: Seq<bool>) -> u32 decreases bits.len() {
    if bits.len() == 0 || bits.len() > 32 { 0u32 } else { aval(bits.drop_last()) ^ (bitval(bits.last()) << ((32 - bits.len()) as u32)) } }
pub proof fn lemma_bits_commute(x: u32, n: nat)
    ensures crc_bits(x, n + 1) == crc_bit_step(crc_bits(x, n))
    decreases n
{
    assert(crc_bits(x, n + 1) == crc_bits(crc_bit_step(x), n));
    if n > 0 {
        lemma_bits_commute(crc_bit_step(x), (n - 1) as nat);
        assert(crc_bits(x, n) == crc_bits(crc_bit_step(x), (n - 1) as nat));
        assert(((n - 1) as nat + 1) as nat == n);
    }
}
/// a single bit below the top is shifted up unchanged
pub proof fn lemma_pure_shift(v: u32, j: nat)
    requires v == 0 || v == 1, j <= 31,
    ensures crc_bits(v << ((31 - j) as u32), j) == v << 31u32
    decreases j
{
    if j > 0 {
        let sh = (31 - j) as u32;
        let x = v << sh;
        assert(x & 0x8000_0000u32 == 0 && x << 1u32 == v << ((sh + 1) as u32)) by (bit_vector) requires x == v << sh, v == 0 || v == 1, sh <= 30;
        assert(crc_bit_step(x) == v << ((31 - (j - 1)) as u32));
        lemma_pure_shift(v, (j - 1) as nat);
    }
}
pub proof fn lemma_xor_assoc(a: u32, b: u32, c: u32) ensures (a ^ b) ^ c == a ^ (b ^ c), a ^ b == b ^ a, a ^ 0 == a, a ^ a == 0
{ assert((a ^ b) ^ c == a ^ (b ^ c) && a ^ b == b ^ a && a ^ 0 == a && a ^ a == 0) by (bit_vector); }
/// feeding n <= 32 bits into the register equals adding them, left-aligned, to the register and shifting n times
pub proof fn lemma_bfold_short(c: u32, bits: Seq<bool>)
    requires bits.len() <= 32,
    ensures bfold(c, bits) == crc_bits(c ^ aval(bits), bits.len())
    decreases bits.len()
{
    let n = bits.len();
    if n == 0 { lemma_xor_assoc(c, 0, 0); }
    else {
        let pre = bits.drop_last();
        let v = bitval(bits.last());
        lemma_bfold_short(c, pre);
        let m = (n - 1) as nat;
        // bfold(c, bits) = step(crc_bits(c ^ aval(pre), m) ^ v<<31)
        lemma_pure_shift(v, m);
        let w = v << ((32 - n) as u32);
        assert((31 - m) as u32 == (32 - n) as u32);
        assert(bit31(bits.last()) == v << 31u32) by { assert(1u32 << 31u32 == 0x8000_0000u32 && 0u32 << 31u32 == 0u32) by (bit_vector); }
        lemma_bits_linear(c ^ aval(pre), w, m);
        lemma_xor_assoc(c, aval(pre), w);
        assert(aval(bits) == aval(pre) ^ w);
        lemma_bits_commute(c ^ aval(bits), m);
    }
}
pub proof fn lemma_aval_byte(b: u8)
    ensures aval(byte_bits(b)) == (b as u32) << 24, byte_bits(b).len() == 8
{
    let bits = byte_bits(b);
    reveal_with_fuel(aval, 10);
    let d1 = bits.drop_last(); let d2 = d1.drop_last(); let d3 = d2.drop_last(); let d4 = d3.drop_last(); let d5 = d4.drop_last(); let d6 = d5.drop_last(); let d7 = d6.drop_last(); let d8 = d7.drop_last();
    assert(d8.len() == 0);
    let bb = b as u32;
    let v0 = bitval(bits[0]); let v1 = bitval(bits[1]); let v2 = bitval(bits[2]); let v3 = bitval(bits[3]); let v4 = bitval(bits[4]); let v5 = bitval(bits[5]); let v6 = bitval(bits[6]); let v7 = bitval(bits[7]);
    assert(aval(d7) == 0u32 ^ (v0 << 31u32));
    assert(aval(d6) == aval(d7) ^ (v1 << 30u32));
    assert(aval(d5) == aval(d6) ^ (v2 << 29u32));
    assert(aval(d4) == aval(d5) ^ (v3 << 28u32));
    assert(aval(d3) == aval(d4) ^ (v4 << 27u32));
    assert(aval(d2) == aval(d3) ^ (v5 << 26u32));
    assert(aval(d1) == aval(d2) ^ (v6 << 25u32));
    assert(aval(bits) == aval(d1) ^ (v7 << 24u32));
    assert((b & 0x80u8 != 0) == (bb & 0x80 != 0) && (b & 0x40u8 != 0) == (bb & 0x40 != 0) && (b & 0x20u8 != 0) == (bb & 0x20 != 0) && (b & 0x10u8 != 0) == (bb & 0x10 != 0)
        && (b & 0x08u8 != 0) == (bb & 0x08 != 0) && (b & 0x04u8 != 0) == (bb & 0x04 != 0) && (b & 0x02u8 != 0) == (bb & 0x02 != 0) && (b & 0x01u8 != 0) == (bb & 0x01 != 0)) by (bit_vector) requires bb == b as u32;
    assert(((((((((0u32 ^ ((if bb & 0x80 != 0 { 1u32 } else { 0u32 }) << 31u32)) ^ ((if bb & 0x40 != 0 { 1u32 } else { 0u32 }) << 30u32)) ^ ((if bb & 0x20 != 0 { 1u32 } else { 0u32 }) << 29u32))
        ^ ((if bb & 0x10 != 0 { 1u32 } else { 0u32 }) << 28u32)) ^ ((if bb & 0x08 != 0 { 1u32 } else { 0u32 }) << 27u32)) ^ ((if bb & 0x04 != 0 { 1u32 } else { 0u32 }) << 26u32))
        ^ ((if bb & 0x02 != 0 { 1u32 } else { 0u32 }) << 25u32)) ^ ((if bb & 0x01 != 0 { 1u32 } else { 0u32 }) << 24u32)) == bb << 24u32) by (bit_vector) requires bb < 256;
}
/// a byte is eight bit steps
pub proof fn lemma_byte_is_8_bits(c: u32, b: u8)
    ensures crc_byte(c, b) == bfold(c, byte_bits(b))
{
    lemma_aval_byte(b);
    lemma_bfold_short(c, byte_bits(b));
}

pub proof fn lemma_bits_of_append(a: Seq<u8>, b: Seq<u8>)
    ensures bits_of(a + b) =~= bits_of(a) + bits_of(b), bits_of(a).len() == 8 * a.len()
    decreases b.len()
{
    lemma_bits_of_len(a);
    if b.len() == 0 { assert(a + b =~= a); }
    else {
        assert((a + b).drop_last() =~= a + b.drop_last()); assert((a + b).last() == b.last());
        lemma_bits_of_append(a, b.drop_last());
    }
}
pub proof fn lemma_bits_of_len(a: Seq<u8>) ensures bits_of(a).len() == 8 * a.len() decreases a.len()
{ if a.len() > 0 { lemma_bits_of_len(a.drop_last()); } }
/// the byte-wise CRC is the bit-serial one
pub proof fn lemma_fold_is_bfold(c: u32, s: Seq<u8>)
    ensures crc_fold(c, s) == bfold(c, bits_of(s))
    decreases s.len()
{
    if s.len() > 0 {
        lemma_fold_is_bfold(c, s.drop_last());
        lemma_byte_is_8_bits(crc_fold(c, s.drop_last()), s.last());
        lemma_bfold_append(c, bits_of(s.drop_last()), byte_bits(s.last()));
    }
}
pub open spec fn xorb(x: Seq<bool>, y: Seq<bool>) -> Seq<bool> { Seq::new(x.len(), |i: int| x[i] != y[i]) }
/// linearity over GF(2): registers and inputs add
pub proof fn lemma_bfold_linear(c1: u32, c2: u32, x: Seq<bool>, y: Seq<bool>)
    requires x.len() == y.len(),
    ensures bfold(c1 ^ c2, xorb(x, y)) == bfold(c1, x) ^ bfold(c2, y)
    decreases x.len()
{
    if x.len() > 0 {
        let z = xorb(x, y);
        assert(z.drop_last() =~= xorb(x.drop_last(), y.drop_last()));
        lemma_bfold_linear(c1, c2, x.drop_last(), y.drop_last());
        let a = bfold(c1, x.drop_last()); let b = bfold(c2, y.drop_last());
        let p = bit31(x.last()); let q = bit31(y.last());
        assert(bit31(z.last()) == p ^ q) by { assert(0x8000_0000u32 ^ 0x8000_0000u32 == 0u32 && 0x8000_0000u32 ^ 0u32 == 0x8000_0000u32 && 0u32 ^ 0x8000_0000u32 == 0x8000_0000u32 && 0u32 ^ 0u32 == 0u32) by (bit_vector); }
        assert((a ^ b) ^ (p ^ q) == (a ^ p) ^ (b ^ q)) by (bit_vector);
        lemma_step_linear(a ^ p, b ^ q);
    }
}
pub proof fn lemma_step_zero(x: u32)
    ensures crc_bit_step(x) == 0 ==> x == 0
{ assert((if x & 0x8000_0000u32 != 0 { (x << 1) ^ 0x04C1_1DB7u32 } else { x << 1 }) == 0u32 ==> x == 0u32) by (bit_vector); }
/// the register transition is injective: only the zero register shifts to zero
pub proof fn lemma_bits_zero(x: u32, n: nat)
    ensures crc_bits(x, n) == 0 ==> x == 0
    decreases n
{ if n > 0 { lemma_bits_zero(crc_bit_step(x), (n - 1) as nat); lemma_step_zero(x); } }
pub proof fn lemma_bfold_zeros(c: u32, n: nat)
    ensures bfold(c, zbits(n)) == crc_bits(c, n)
    decreases n
{
    if n > 0 {
        assert(zbits(n).drop_last() =~= zbits((n - 1) as nat));
        lemma_bfold_zeros(c, (n - 1) as nat);
        lemma_bits_commute(c, (n - 1) as nat);
        lemma_xor_assoc(crc_bits(c, (n - 1) as nat), 0, 0);
        assert(((n - 1) as nat + 1) as nat == n);
    }
}
pub proof fn lemma_aval_top(bits: Seq<bool>)
    requires 1 <= bits.len() <= 32, bits[0],
    ensures aval(bits) & 0x8000_0000u32 != 0
    decreases bits.len()
{
    if bits.len() == 1 {
        assert(bits.drop_last().len() == 0);
        assert(bits.last() == bits[0]);
        assert(aval(bits.drop_last()) == 0u32);
        assert(bitval(bits.last()) == 1u32);
        assert(((32 - bits.len()) as u32) == 31u32);
        assert(aval(bits) == aval(bits.drop_last()) ^ (bitval(bits.last()) << ((32 - bits.len()) as u32)));
        assert(aval(bits) == 0u32 ^ (1u32 << 31u32));
        assert((0u32 ^ (1u32 << 31u32)) & 0x8000_0000u32 != 0) by (bit_vector);
    } else {
        lemma_aval_top(bits.drop_last());
        let a = aval(bits.drop_last()); let v = bitval(bits.last()); let sh = (32 - bits.len()) as u32;
        assert(bits.drop_last()[0] == bits[0]);
        assert(aval(bits) == a ^ (v << sh));
        assert((a ^ (v << sh)) & 0x8000_0000u32 != 0) by (bit_vector) requires a & 0x8000_0000u32 != 0, v == 0 || v == 1, sh <= 30;
    }
}
/// a CRC followed by itself leaves the register at zero
pub proof fn lemma_trailer_zero(c: u32)
    ensures crc_fold(c, be32(c)) == 0
{
    let t = be32(c);
    let b0 = (c >> 24) as u8; let b1 = ((c >> 16) & 0xff) as u8; let b2 = ((c >> 8) & 0xff) as u8; let b3 = (c & 0xff) as u8;
    reveal_with_fuel(crc_fold, 6);
    let d1 = t.drop_last(); let d2 = d1.drop_last(); let d3 = d2.drop_last(); let d4 = d3.drop_last();
    assert(d4.len() == 0);
    let s1 = crc_byte(c, b0); let s2 = crc_byte(s1, b1); let s3 = crc_byte(s2, b2); let s4 = crc_byte(s3, b3);
    assert(crc_fold(c, d4) == c); assert(crc_fold(c, d3) == s1); assert(crc_fold(c, d2) == s2); assert(crc_fold(c, d1) == s3); assert(crc_fold(c, t) == s4);
    let x0 = c ^ ((b0 as u32) << 24);
    assert(x0 & 0xFF00_0000u32 == 0 && x0 << 8u32 == c << 8u32) by (bit_vector) requires x0 == c ^ ((b0 as u32) << 24), b0 == (c >> 24) as u8;
    lemma_bits_low(x0);
    let x1 = s1 ^ ((b1 as u32) << 24);
    assert(x1 & 0xFF00_0000u32 == 0 && x1 << 8u32 == c << 16u32) by (bit_vector) requires x1 == s1 ^ ((b1 as u32) << 24), s1 == c << 8u32, b1 == ((c >> 16) & 0xff) as u8;
    lemma_bits_low(x1);
    let x2 = s2 ^ ((b2 as u32) << 24);
    assert(x2 & 0xFF00_0000u32 == 0 && x2 << 8u32 == c << 24u32) by (bit_vector) requires x2 == s2 ^ ((b2 as u32) << 24), s2 == c << 16u32, b2 == ((c >> 8) & 0xff) as u8;
    lemma_bits_low(x2);
    let x3 = s3 ^ ((b3 as u32) << 24);
    assert(x3 == 0) by (bit_vector) requires x3 == s3 ^ ((b3 as u32) << 24), s3 == c << 24u32, b3 == (c & 0xff) as u8;
    assert(0u32 & 0xFF00_0000u32 == 0 && 0u32 << 8u32 == 0u32) by (bit_vector);
    lemma_bits_low(x3);
}
/// C03, error detection: a transmitted (protected bytes X, trailer crc(X)) hit by ANY error pattern whose non-zero bits lie within 32
/// consecutive bit positions -- zbits(a) ++ burst ++ zbits(b) with 1 <= |burst| <= 32 and a leading one -- anywhere in X or in the
/// trailer never satisfies the receiver's acceptance equation trailer' == crc(Y)
pub proof fn lemma_crc_burst(x: Seq<u8>, y: Seq<u8>, t2: u32, a: nat, burst: Seq<bool>, b: nat)
    requires
        x.len() == y.len(), 1 <= burst.len() <= 32, burst[0],
        a + burst.len() + b == 8 * (x.len() + 4),
        bits_of(y + be32(t2)) =~= xorb(bits_of(x + be32(crc_mpeg2(x))), zbits(a) + burst + zbits(b)),
    ensures t2 != crc_mpeg2(y)
{
    let init = 0xFFFF_FFFFu32;
    let t = crc_mpeg2(x);
    if t2 == crc_mpeg2(y) {
        let sx = x + be32(t); let sy = y + be32(t2);
        lemma_fold_append(init, x, be32(t)); lemma_trailer_zero(t);
        lemma_fold_append(init, y, be32(t2)); lemma_trailer_zero(t2);
        lemma_fold_is_bfold(init, sx); lemma_fold_is_bfold(init, sy);
        let e = zbits(a) + burst + zbits(b);
        lemma_bits_of_len(sx); lemma_bits_of_len(sy);
        assert(bits_of(sx).len() == e.len());
        // sy = sx xor e  ==>  e = sx xor sy
        assert(xorb(bits_of(sx), bits_of(sy)) =~= e);
        lemma_bfold_linear(init, init, bits_of(sx), bits_of(sy));
        lemma_xor_assoc(init, 0, 0);
        assert(bfold(0, e) == 0) by { assert(0u32 ^ 0u32 == 0u32) by (bit_vector); }
        lemma_bfold_append(0, zbits(a) + burst, zbits(b));
        lemma_bfold_append(0, zbits(a), burst);
        lemma_bfold_zeros(0, a);
        lemma_bits_zero(0, a);
        assert(crc_bits(0, a) == 0) by { lemma_zero_stays(a); }
        let h = bfold(0, burst);
        lemma_bfold_short(0, burst);
        lemma_aval_top(burst);
        lemma_xor_assoc(aval(burst), 0, 0);
        assert(0u32 ^ aval(burst) == aval(burst)) by { let v = aval(burst); assert(0u32 ^ v == v) by (bit_vector); }
        lemma_bits_zero(aval(burst), burst.len());
        assert(aval(burst) != 0) by { let v = aval(burst); assert(v & 0x8000_0000u32 != 0 ==> v != 0) by (bit_vector); }
        assert(h != 0);
        lemma_bfold_zeros(h, b);
        lemma_bits_zero(h, b);
    }
}
pub proof fn lemma_zero_stays(n: nat) ensures crc_bits(0, n) == 0 decreases n
{ if n > 0 { assert(crc_bit_step(0) == 0) by { assert(0u32 & 0x8000_0000u32 == 0 && 0u32 << 1u32 == 0) by (bit_vector); } lemma_zero_stays((n - 1) as nat); } }

/// catalogue check value of CRC-32/MPEG-2: crc("123456789") = 0x0376E6E7
pub proof fn lemma_crc_check_value()
    ensures crc_mpeg2(seq![0x31u8, 0x32, 0x33, 0x34, 0x35, 0x36, 0x37, 0x38, 0x39]) == 0x0376_E6E7u32
{
    assert(crc_mpeg2(seq![0x31u8, 0x32, 0x33, 0x34, 0x35, 0x36, 0x37, 0x38, 0x39]) == 0x0376_E6E7u32) by (compute_only);
}

// @MODULE_TAIL
} // verus!
