// Ghost library: the independent reading of ETSI TS 102 606 / RFC 5163 and of CRC-32/MPEG-2
// against which the contracts are stated, and the lemmas that turn per-function contracts
// into the listed properties.  Spec and proof code only: nothing here is executable.
use vstd::prelude::*;
use crate::vshim::*;
use crate::label::{Label, LabelType};
use crate::pkt_type::PktType;
verus! {

// =====================================================================================
// fixed header (C14)
// =====================================================================================
pub open spec fn s_bit(k: PktType) -> int { match k { PktType::CompletePkt => 1, PktType::FirstFragPkt => 1, _ => 0 } }
pub open spec fn e_bit(k: PktType) -> int { match k { PktType::CompletePkt => 1, PktType::EndFragPkt => 1, _ => 0 } }
pub open spec fn lt_code(t: LabelType) -> int { match t { LabelType::SixBytesLabel => 0, LabelType::ThreeBytesLabel => 1, LabelType::Broadcast => 2, LabelType::ReUse => 3 } }
pub open spec fn kind_of(s: int, e: int) -> PktType {
    if s == 1 && e == 1 { PktType::CompletePkt } else if s == 1 { PktType::FirstFragPkt } else if e == 1 { PktType::EndFragPkt } else { PktType::IntermediateFragPkt } }
pub open spec fn ltype_of(t: int) -> LabelType {
    if t == 0 { LabelType::SixBytesLabel } else if t == 1 { LabelType::ThreeBytesLabel } else if t == 2 { LabelType::Broadcast } else { LabelType::ReUse } }

/// S | E | LT(2) | GSE length(12), most significant bit first
pub open spec fn hdr_word(k: PktType, t: LabelType, len: int) -> int {
    s_bit(k) * 0x8000 + e_bit(k) * 0x4000 + lt_code(t) * 0x1000 + len % 0x1000 }
pub open spec fn hdr_s(w: int) -> int { (w / 0x8000) % 2 }
pub open spec fn hdr_e(w: int) -> int { (w / 0x4000) % 2 }
pub open spec fn hdr_t(w: int) -> int { (w / 0x1000) % 4 }
pub open spec fn hdr_len(w: int) -> int { w % 0x1000 }
/// padding <=> S = 0, E = 0, LT = 00
pub open spec fn hdr_is_padding(w: int) -> bool { w / 0x1000 == 0 }
pub open spec fn hdr_decode(w: int) -> Option<(usize, PktType, LabelType)> {
    if hdr_is_padding(w) { None } else { Some((hdr_len(w) as usize, kind_of(hdr_s(w), hdr_e(w)), ltype_of(hdr_t(w)))) } }

pub proof fn lemma_hdr_mask(a: u16, b: u16, c: u16)
    requires a == 0 || a == 0x4000 || a == 0x8000 || a == 0xC000, b == 0 || b == 0x1000 || b == 0x2000 || b == 0x3000,
    ensures ((a & 0xC000u16) | (b & 0x3000u16) | (c & 0x0FFFu16)) as int == a + b + (c as int) % 0x1000,
{
    assert((a & 0xC000u16) | (b & 0x3000u16) | (c & 0x0FFFu16) == a + b + (c % 0x1000u16)) by (bit_vector)
        requires a == 0 || a == 0x4000 || a == 0x8000 || a == 0xC000, b == 0 || b == 0x1000 || b == 0x2000 || b == 0x3000;
}
pub proof fn lemma_hdr_fields(w: u16)
    ensures (w & 0xC000u16) as int == (w as int / 0x4000) * 0x4000,
            (w & 0x3000u16) as int == ((w as int / 0x1000) % 4) * 0x1000,
            (w & 0x0FFFu16) as int == (w as int) % 0x1000,
            w & 0xC000u16 == 0 || w & 0xC000u16 == 0x4000 || w & 0xC000u16 == 0x8000 || w & 0xC000u16 == 0xC000,
            w & 0x3000u16 == 0 || w & 0x3000u16 == 0x1000 || w & 0x3000u16 == 0x2000 || w & 0x3000u16 == 0x3000,
{
    assert(w & 0xC000u16 == (w / 0x4000u16) * 0x4000u16) by (bit_vector);
    assert(w & 0x3000u16 == ((w / 0x1000u16) % 4u16) * 0x1000u16) by (bit_vector);
    assert(w & 0x0FFFu16 == w % 0x1000u16) by (bit_vector);
    assert(w & 0xC000u16 == 0 || w & 0xC000u16 == 0x4000 || w & 0xC000u16 == 0x8000 || w & 0xC000u16 == 0xC000) by (bit_vector);
    assert(w & 0x3000u16 == 0 || w & 0x3000u16 == 0x1000 || w & 0x3000u16 == 0x2000 || w & 0x3000u16 == 0x3000) by (bit_vector);
}

/// C14, direction 1: decode(encode(k, t, len)) == (k, t, len) unless it is the padding pattern
pub proof fn lemma_c14_decode_encode(k: PktType, t: LabelType, len: int)
    requires 0 <= len <= 4095,
    ensures
        0 <= hdr_word(k, t, len) <= 0xFFFF,
        hdr_is_padding(hdr_word(k, t, len)) <==> (k == PktType::IntermediateFragPkt && t == LabelType::SixBytesLabel),
        !(k == PktType::IntermediateFragPkt && t == LabelType::SixBytesLabel) ==> hdr_decode(hdr_word(k, t, len)) == Some((len as usize, k, t)),
{
}
/// C14, direction 2: encode(decode(w)) == w for every non-padding word; padding words decode to None
pub proof fn lemma_c14_encode_decode(w: int)
    requires 0 <= w <= 0xFFFF,
    ensures
        hdr_decode(w) is None <==> hdr_is_padding(w),
        hdr_decode(w) matches Some((len, k, t)) ==> hdr_word(k, t, len as int) == w && len <= 4095,
{
}


// =====================================================================================
// labels
// =====================================================================================
pub open spec fn ll(l: Label) -> int { match l { Label::SixBytesLabel(_) => 6, Label::ThreeBytesLabel(_) => 3, _ => 0 } }
pub open spec fn lbytes(l: Label) -> Seq<u8> { match l { Label::SixBytesLabel(b) => b@, Label::ThreeBytesLabel(b) => b@, _ => Seq::empty() } }
pub open spec fn ltype(l: Label) -> LabelType { match l {
    Label::SixBytesLabel(_) => LabelType::SixBytesLabel, Label::ThreeBytesLabel(_) => LabelType::ThreeBytesLabel,
    Label::Broadcast => LabelType::Broadcast, Label::ReUse => LabelType::ReUse } }
pub open spec fn lt_len(t: LabelType) -> int { match t { LabelType::SixBytesLabel => 6, LabelType::ThreeBytesLabel => 3, _ => 0 } }
pub open spec fn is_addr(l: Label) -> bool { l is SixBytesLabel || l is ThreeBytesLabel }
pub open spec fn zero6() -> Label { Label::SixBytesLabel([0u8, 0u8, 0u8, 0u8, 0u8, 0u8]) }
pub open spec fn is_zero6(l: Label) -> bool { l == zero6() }
/// the forbidden label is exactly the 6-byte label whose bytes are all zero
pub proof fn lemma_zero6(l: Label)
    ensures is_zero6(l) <==> (l matches Label::SixBytesLabel(b) && forall|i: int| 0 <= i < 6 ==> b@[i] == 0u8)
{
    let z = [0u8, 0u8, 0u8, 0u8, 0u8, 0u8];
    match l { Label::SixBytesLabel(b) => { if forall|i: int| 0 <= i < 6 ==> b@[i] == 0u8 { assert(b@ =~= z@); assert(b == z); } else { assert(b != z) by { if b == z { assert(forall|i: int| 0 <= i < 6 ==> z@[i] == 0u8); } } } } _ => {} }
}
/// the label carried by `s` for label type `t` (s has exactly lt_len(t) bytes)
pub open spec fn parse_label(t: LabelType, s: Seq<u8>) -> Label { match t {
    LabelType::SixBytesLabel => Label::SixBytesLabel([s[0], s[1], s[2], s[3], s[4], s[5]]),
    LabelType::ThreeBytesLabel => Label::ThreeBytesLabel([s[0], s[1], s[2]]),
    LabelType::Broadcast => Label::Broadcast,
    LabelType::ReUse => Label::ReUse } }
pub proof fn lemma_parse_label_inv(l: Label)
    ensures parse_label(ltype(l), lbytes(l)) == l, lbytes(l).len() == ll(l), ll(l) == lt_len(ltype(l))
{
    match l {
        Label::SixBytesLabel(a) => { assert([a@[0], a@[1], a@[2], a@[3], a@[4], a@[5]] =~= a); }
        Label::ThreeBytesLabel(a) => { assert([a@[0], a@[1], a@[2]] =~= a); }
        _ => {}
    }
}


// =====================================================================================
// wire formats (ETSI TS 102 606 section 4.2), field-wise: what a parser reading the standard sees
// =====================================================================================
pub open spec fn hdr_bytes(k: PktType, t: LabelType, gse_len: int) -> Seq<u8> { be16(hdr_word(k, t, gse_len) as u16) }
/// complete packet: header | protocol type | label | PDU
pub open spec fn complete_fields(b: Seq<u8>, n: int, ptype: u16, lw: Label, pdu: Seq<u8>) -> bool {
    &&& n == 4 + ll(lw) + pdu.len() && n <= b.len() && n - 2 <= 4095
    &&& b.subrange(0, 2) =~= hdr_bytes(PktType::CompletePkt, ltype(lw), n - 2)
    &&& b.subrange(2, 4) =~= be16(ptype)
    &&& b.subrange(4, 4 + ll(lw)) =~= lbytes(lw)
    &&& b.subrange(4 + ll(lw), n) =~= pdu
}
/// first fragment: header | frag id | total length | protocol type | label | payload
pub open spec fn first_fields(b: Seq<u8>, n: int, fid: u8, total: int, ptype: u16, lw: Label, payload: Seq<u8>) -> bool {
    &&& n == 7 + ll(lw) + payload.len() && n <= b.len() && n - 2 <= 4095 && 0 <= total <= 0xFFFF
    &&& b.subrange(0, 2) =~= hdr_bytes(PktType::FirstFragPkt, ltype(lw), n - 2)
    &&& b[2] == fid
    &&& b.subrange(3, 5) =~= be16(total as u16)
    &&& b.subrange(5, 7) =~= be16(ptype)
    &&& b.subrange(7, 7 + ll(lw)) =~= lbytes(lw)
    &&& b.subrange(7 + ll(lw), n) =~= payload
}
/// intermediate fragment: header (label type 11) | frag id | payload
pub open spec fn inter_fields(b: Seq<u8>, n: int, fid: u8, payload: Seq<u8>) -> bool {
    &&& n == 3 + payload.len() && n <= b.len() && n - 2 <= 4095
    &&& b.subrange(0, 2) =~= hdr_bytes(PktType::IntermediateFragPkt, LabelType::ReUse, n - 2)
    &&& b[2] == fid
    &&& b.subrange(3, n) =~= payload
}
/// end fragment: header (label type 11) | frag id | payload | CRC-32
pub open spec fn end_fields(b: Seq<u8>, n: int, fid: u8, payload: Seq<u8>, crc: u32) -> bool {
    &&& n == 7 + payload.len() && n <= b.len() && n - 2 <= 4095
    &&& b.subrange(0, 2) =~= hdr_bytes(PktType::EndFragPkt, LabelType::ReUse, n - 2)
    &&& b[2] == fid
    &&& b.subrange(3, 3 + payload.len() as int) =~= payload
    &&& b.subrange(3 + payload.len() as int, n) =~= be32(crc)
}
/// the label the packet in `b` carries, given the label the caller passed: re-use marker iff the label type bits are 11
pub open spec fn wire_label(b: Seq<u8>, label_in: Label) -> Label {
    if hdr_t(from_be16(b.subrange(0, 2)) as int) == 3 { Label::ReUse } else { label_in } }


pub proof fn lemma_be16_inv(x: u16) ensures from_be16(be16(x)) == x, be16(x).len() == 2 {
    assert((((x >> 8) as u8 as u16) << 8) | ((x & 0xff) as u8 as u16) == x) by (bit_vector);
}
pub proof fn lemma_be32_inv(x: u32) ensures from_be32(be32(x)) == x, be32(x).len() == 4 {
    assert(((((x >> 24) as u8 as u32) << 24) | ((((x >> 16) & 0xff) as u8 as u32) << 16) | ((((x >> 8) & 0xff) as u8 as u32) << 8) | ((x & 0xff) as u8 as u32)) == x) by (bit_vector);
}
/// the header written in front of a packet tells which label was written
pub proof fn lemma_wire_label(b: Seq<u8>, k: PktType, lw: Label, label_in: Label, gse_len: int)
    requires b.len() >= 2, b.subrange(0, 2) =~= hdr_bytes(k, ltype(lw), gse_len), 0 <= gse_len <= 4095, lw == label_in || lw == Label::ReUse,
    ensures wire_label(b, label_in) == lw, hdr_decode(from_be16(b.subrange(0, 2)) as int) == hdr_decode(hdr_word(k, ltype(lw), gse_len))
{
    lemma_be16_inv(hdr_word(k, ltype(lw), gse_len) as u16);
    lemma_c14_decode_encode(k, ltype(lw), gse_len);
}

// =====================================================================================
// sender: label re-use policy (C04, C15) and size decisions (C01, C02, C06, C09, C11, C18)
// =====================================================================================
pub struct EncView { pub activated: bool, pub max: int, pub cur: int, pub last: Option<Label> }
/// a substitution of `label` by the re-use marker is permitted in state e (C15 (d), C04)
pub open spec fn may_substitute(e: EncView, label: Label) -> bool { e.activated && e.last == Some(label) && is_addr(label) }
/// what any implementation of the re-use decision must satisfy: `w` is the label written for `label`, e2 the next state
pub open spec fn label_step_ok(e: EncView, label: Label, w: Label, e2: EncView) -> bool {
    &&& e2.activated == e.activated && e2.max == e.max
    &&& (w == label || (w == Label::ReUse && may_substitute(e, label)))
    &&& (w == Label::ReUse && label != Label::ReUse && e.max > 0 ==> e.cur < e.max && e2.cur == e.cur + 1)
    &&& 0 <= e2.cur && (e.max > 0 && e.cur <= e.max ==> e2.cur <= e.max)
    &&& (w == Label::ReUse && label == Label::ReUse ==> e2.cur >= e.cur)
    &&& (e.activated ==> e2.last == (if is_addr(w) { Some(w) } else if w == Label::Broadcast { None } else { e.last }))
}
/// C15 invariant: g = number of consecutive packets whose label the encapsulator replaced; prev = label carried by the
/// last start/complete packet since the last reset / broadcast / (re-)enabling, None if there is none
pub open spec fn pol(e: EncView, g: int, prev: Option<Label>) -> bool {
    &&& 0 <= g && 0 <= e.cur && 0 <= e.max
    &&& (e.max > 0 ==> g <= e.cur && e.cur <= e.max)
    &&& (e.activated ==> (e.last matches Some(l) ==> prev == Some(l)))
    &&& (prev matches Some(l) ==> is_addr(l))
}
pub open spec fn prev_after(prev: Option<Label>, w: Label) -> Option<Label> {
    if is_addr(w) { Some(w) } else if w == Label::Broadcast { None } else { prev } }
pub open spec fn run_after(g: int, label: Label, w: Label) -> int {
    if w == Label::ReUse && label != Label::ReUse { g + 1 } else if w == Label::ReUse { g } else { 0 } }
/// C15: every successful start/complete packet preserves the invariant and respects the four policy clauses
pub proof fn lemma_c15_step(e: EncView, g: int, prev: Option<Label>, label: Label, w: Label, e2: EncView)
    requires pol(e, g, prev), label_step_ok(e, label, w, e2),
    ensures
        pol(e2, run_after(g, label, w), prev_after(prev, w)),
        !e.activated ==> w == label,
        e.max > 0 && w == Label::ReUse && label != Label::ReUse ==> g + 1 <= e.max,
        w == Label::ReUse && label != Label::ReUse ==> prev == Some(label) && is_addr(label),
{ }


/// C15 over whole histories: operations on the sender's re-use state, as constrained by the contracts of the real methods
pub enum SOp {
    /// a successful encap / encap_ext: label passed, label written, state after (clause E.label / X.label)
    Sent { label: Label, w: Label, e2: EncView },
    /// a failed encap / encap_ext / any encap_frag: state unchanged (clauses E.err_atomic / X.err_atomic; encap_frag takes &self)
    Unchanged,
    /// reset_last_label (S.reset), disable (S.disable), enable (S.enable), enable with max (S.enable_max): state after
    Reset { e2: EncView }, Disable { e2: EncView }, Enable { e2: EncView },
}
pub open spec fn sop_ok(e: EncView, op: SOp) -> bool { match op {
    SOp::Sent { label, w, e2 } => label_step_ok(e, label, w, e2),
    SOp::Unchanged => true,
    SOp::Reset { e2 } => e2 == (EncView { last: None, ..e }),
    SOp::Disable { e2 } => !e2.activated && e2.max == 0 && e2.cur == 0,
    SOp::Enable { e2 } => e2.activated && e2.cur == 0 && e2.last.is_none() && 0 <= e2.max,
} }
pub open spec fn sop_next(e: EncView, op: SOp) -> EncView { match op {
    SOp::Sent { e2, .. } => e2, SOp::Unchanged => e, SOp::Reset { e2 } => e2, SOp::Disable { e2 } => e2, SOp::Enable { e2 } => e2 } }
/// ghost observers: run length of consecutive substituted packets, label carried by the last start/complete packet
pub open spec fn sop_run(g: int, op: SOp) -> int { match op { SOp::Sent { label, w, .. } => run_after(g, label, w), SOp::Unchanged => g, _ => 0 } }
pub open spec fn sop_prev(prev: Option<Label>, op: SOp) -> Option<Label> { match op {
    SOp::Sent { w, .. } => prev_after(prev, w), SOp::Unchanged => prev, SOp::Reset { .. } => None,
    // a receiver that is not reset keeps its memory across disable/enable: prev is unchanged
    SOp::Disable { .. } => prev, SOp::Enable { .. } => prev } }
pub open spec fn trace_ok(e: EncView, ops: Seq<SOp>) -> bool decreases ops.len() {
    ops.len() == 0 || (sop_ok(e, ops[0]) && trace_ok(sop_next(e, ops[0]), ops.subrange(1, ops.len() as int))) }
/// C15: along every history the invariant holds, hence at every successful packet: (a) disabled => no substitution,
/// (b) at most max consecutive substitutions, (c)/(d) substitution only for the 3/6-byte label carried by the preceding start/complete packet
pub proof fn lemma_c15_trace(e: EncView, g: int, prev: Option<Label>, ops: Seq<SOp>, k: int)
    requires pol(e, g, prev), trace_ok(e, ops), 0 <= k < ops.len(),
    ensures ({ let (ek, gk, pk) = state_at(e, g, prev, ops, k);
        pol(ek, gk, pk) && (ops[k] matches SOp::Sent { label, w, e2 } ==> (
            (!ek.activated ==> w == label)
            && (ek.max > 0 && w == Label::ReUse && label != Label::ReUse ==> gk + 1 <= ek.max)
            && (w == Label::ReUse && label != Label::ReUse ==> pk == Some(label) && is_addr(label)))) })
    decreases k
{
    if k > 0 {
        let op = ops[0];
        match op { SOp::Sent { label, w, e2 } => { lemma_c15_step(e, g, prev, label, w, e2); } _ => {} }
        let rest = ops.subrange(1, ops.len() as int);
        assert(rest[k - 1] == ops[k]);
        lemma_c15_trace(sop_next(e, op), sop_run(g, op), sop_prev(prev, op), rest, k - 1);
    } else {
        match ops[0] { SOp::Sent { label, w, e2 } => { lemma_c15_step(e, g, prev, label, w, e2); } _ => {} }
    }
}
pub open spec fn state_at(e: EncView, g: int, prev: Option<Label>, ops: Seq<SOp>, k: int) -> (EncView, int, Option<Label>) decreases k {
    if k <= 0 || ops.len() == 0 { (e, g, prev) } else { state_at(sop_next(e, ops[0]), sop_run(g, ops[0]), sop_prev(prev, ops[0]), ops.subrange(1, ops.len() as int), k - 1) } }

pub enum Dec { ErrLabel, ErrPtype, ErrSize, ErrPduLen, Complete { n: int }, First { n: int, k: int } }
pub open spec fn min_int(a: int, b: int) -> int { if a < b { a } else { b } }
/// what encap / encap_preview must answer for a PDU of pdu_len bytes, the label `lw` as written, a buffer of buf bytes
pub open spec fn size_decision(lw: Label, label_in: Label, ptype: u16, pdu_len: int, buf: int) -> Dec {
    if is_zero6(label_in) { Dec::ErrLabel }
    else if 0x100 <= ptype < 0x600 { Dec::ErrPtype }
    else if buf >= 4 + ll(lw) + pdu_len && 2 + ll(lw) + pdu_len <= 4095 { Dec::Complete { n: 4 + ll(lw) + pdu_len } }
    else if buf < 7 + ll(lw) { Dec::ErrSize }
    else if pdu_len + 2 + ll(lw) > 0xFFFF { Dec::ErrPduLen }
    else { let k = min_int(buf - 7 - ll(lw), 4095 - 5 - ll(lw)); Dec::First { n: 7 + ll(lw) + k, k } }
}
pub enum FDec { ErrCtx, ErrSize, End { n: int }, Inter { n: int, k: int } }
/// what encap_frag / encap_frag_preview must answer with ctx_len bytes already sent
pub open spec fn frag_decision(pdu_len: int, ctx_len: int, buf: int) -> FDec {
    if ctx_len > pdu_len { FDec::ErrCtx } else {
        let rem = pdu_len - ctx_len;
        if buf >= rem + 7 && rem + 5 <= 4095 { FDec::End { n: rem + 7 } }
        else if buf > 3 && rem >= 1 { let k = min_int(min_int(buf - 3, rem), 4094); FDec::Inter { n: 3 + k, k } }
        else { FDec::ErrSize } }
}
/// C02/C06: a first fragment is a proper prefix, fits the buffer and the 12-bit length
pub proof fn lemma_first_is_proper_prefix(lw: Label, label_in: Label, ptype: u16, pdu_len: int, buf: int)
    requires 0 <= pdu_len, 0 <= buf, size_decision(lw, label_in, ptype, pdu_len, buf) is First,
    ensures ({ let d = size_decision(lw, label_in, ptype, pdu_len, buf);
        d matches Dec::First { n, k } && 0 <= k < pdu_len && n <= buf && n - 2 <= 4095 && n == 7 + ll(lw) + k })
{ }
/// C02: a buffer of 13 bytes or more is never refused for lack of room by the first call
pub proof fn lemma_13_bytes_suffice(lw: Label, label_in: Label, ptype: u16, pdu_len: int, buf: int)
    requires 0 <= pdu_len, buf >= 13,
    ensures !(size_decision(lw, label_in, ptype, pdu_len, buf) is ErrSize)
{ }
/// C11 / C02: with at least 7 bytes the continuation always makes progress
pub proof fn lemma_frag_progress(pdu_len: int, ctx_len: int, buf: int)
    requires 0 <= ctx_len <= pdu_len, buf >= 7,
    ensures ({ let d = frag_decision(pdu_len, ctx_len, buf);
        (d matches FDec::End { n } && n <= buf && n - 2 <= 4095)
        || (d matches FDec::Inter { n, k } && 1 <= k <= pdu_len - ctx_len && n <= buf && n - 2 <= 4095) })
{ }
/// C11: the useless buffer is rejected: an intermediate fragment always carries at least one byte
pub proof fn lemma_frag_nonempty(pdu_len: int, ctx_len: int, buf: int)
    requires 0 <= ctx_len <= pdu_len, 0 <= buf,
    ensures frag_decision(pdu_len, ctx_len, buf) matches FDec::Inter { n, k } ==> 1 <= k <= pdu_len - ctx_len && n == 3 + k && n <= buf && n - 2 <= 4095,
            frag_decision(pdu_len, ctx_len, buf) matches FDec::End { n } ==> n == pdu_len - ctx_len + 7 && n <= buf && n - 2 <= 4095,
{ }
/// C11: any schedule of buffers >= 7 finishes within (remaining + 1) calls
pub open spec fn runs_to_end(pdu_len: int, ctx_len: int, bufs: Seq<int>) -> bool decreases bufs.len() {
    if bufs.len() == 0 { false } else { match frag_decision(pdu_len, ctx_len, bufs[0]) {
        FDec::End { .. } => true,
        FDec::Inter { k, .. } => runs_to_end(pdu_len, ctx_len + k, bufs.subrange(1, bufs.len() as int)),
        _ => false } } }
pub proof fn lemma_c11_finish(pdu_len: int, ctx_len: int, bufs: Seq<int>)
    requires 0 <= ctx_len <= pdu_len, bufs.len() >= pdu_len - ctx_len + 1, forall|i: int| 0 <= i < bufs.len() ==> bufs[i] >= 7,
    ensures runs_to_end(pdu_len, ctx_len, bufs)
    decreases bufs.len()
{
    lemma_frag_progress(pdu_len, ctx_len, bufs[0]);
    match frag_decision(pdu_len, ctx_len, bufs[0]) {
        FDec::Inter { n, k } => {
            let rest = bufs.subrange(1, bufs.len() as int);
            assert forall|i: int| 0 <= i < rest.len() implies rest[i] >= 7 by { assert(rest[i] == bufs[i + 1]); }
            lemma_c11_finish(pdu_len, ctx_len + k, rest);
        }
        _ => {}
    }
}
/// C11: the payloads produced over any schedule (rejected buffers skipped) are consecutive slices whose concatenation is the rest of the PDU
pub open spec fn payloads(pdu: Seq<u8>, ctx_len: int, bufs: Seq<int>) -> Seq<u8> decreases bufs.len() {
    if bufs.len() == 0 { Seq::empty() } else { match frag_decision(pdu.len() as int, ctx_len, bufs[0]) {
        FDec::End { .. } => pdu.subrange(ctx_len, pdu.len() as int),
        FDec::Inter { k, .. } => pdu.subrange(ctx_len, ctx_len + k) + payloads(pdu, ctx_len + k, bufs.subrange(1, bufs.len() as int)),
        _ => payloads(pdu, ctx_len, bufs.subrange(1, bufs.len() as int)) } } }
pub open spec fn ends_skipping(pdu_len: int, ctx_len: int, bufs: Seq<int>) -> bool decreases bufs.len() {
    if bufs.len() == 0 { false } else { match frag_decision(pdu_len, ctx_len, bufs[0]) {
        FDec::End { .. } => true,
        FDec::Inter { k, .. } => ends_skipping(pdu_len, ctx_len + k, bufs.subrange(1, bufs.len() as int)),
        _ => ends_skipping(pdu_len, ctx_len, bufs.subrange(1, bufs.len() as int)) } } }
pub proof fn lemma_c11_partition(pdu: Seq<u8>, ctx_len: int, bufs: Seq<int>)
    requires 0 <= ctx_len <= pdu.len(), ends_skipping(pdu.len() as int, ctx_len, bufs), forall|i: int| 0 <= i < bufs.len() ==> bufs[i] >= 0,
    ensures payloads(pdu, ctx_len, bufs) =~= pdu.subrange(ctx_len, pdu.len() as int)
    decreases bufs.len()
{
    if bufs.len() > 0 {
        lemma_frag_nonempty(pdu.len() as int, ctx_len, bufs[0]);
        let rest = bufs.subrange(1, bufs.len() as int);
        assert forall|i: int| 0 <= i < rest.len() implies rest[i] >= 0 by { assert(rest[i] == bufs[i + 1]); }
        match frag_decision(pdu.len() as int, ctx_len, bufs[0]) {
            FDec::End { .. } => {}
            FDec::Inter { n, k } => { lemma_c11_partition(pdu, ctx_len + k, rest); }
            _ => { lemma_c11_partition(pdu, ctx_len, rest); }
        }
    }
}

// =====================================================================================
// CRC-32/MPEG-2 (C12): poly 0x04C11DB7, init 0xFFFFFFFF, MSB first, no reflection, no final xor
// =====================================================================================
pub open spec fn crc_bit_step(c: u32) -> u32 { if c & 0x8000_0000u32 != 0 { (c << 1) ^ 0x04C1_1DB7u32 } else { c << 1 } }
pub open spec fn crc_bits(c: u32, n: nat) -> u32 decreases n { if n == 0 { c } else { crc_bits(crc_bit_step(c), (n - 1) as nat) } }
pub open spec fn crc_byte(c: u32, b: u8) -> u32 { crc_bits(c ^ ((b as u32) << 24), 8) }
pub open spec fn crc_fold(c: u32, s: Seq<u8>) -> u32 decreases s.len() {
    if s.len() == 0 { c } else { crc_byte(crc_fold(c, s.drop_last()), s.last()) } }
pub open spec fn crc_mpeg2(s: Seq<u8>) -> u32 { crc_fold(0xFFFF_FFFFu32, s) }
/// the byte string protected by the GSE CRC: total length | protocol type | label | PDU
pub open spec fn crc_input(pdu: Seq<u8>, protocol_type: u16, total_length: u16, label: Seq<u8>) -> Seq<u8> {
    be16(total_length) + be16(protocol_type) + label + pdu }


pub proof fn lemma_step_linear(x: u32, y: u32)
    ensures crc_bit_step(x ^ y) == crc_bit_step(x) ^ crc_bit_step(y)
{
    assert((if (x ^ y) & 0x8000_0000u32 != 0 { ((x ^ y) << 1) ^ 0x04C1_1DB7u32 } else { (x ^ y) << 1 })
        == (if x & 0x8000_0000u32 != 0 { (x << 1) ^ 0x04C1_1DB7u32 } else { x << 1 }) ^ (if y & 0x8000_0000u32 != 0 { (y << 1) ^ 0x04C1_1DB7u32 } else { y << 1 })) by (bit_vector);
}
pub proof fn lemma_bits_linear(x: u32, y: u32, n: nat)
    ensures crc_bits(x ^ y, n) == crc_bits(x, n) ^ crc_bits(y, n)
    decreases n
{
    if n > 0 { lemma_step_linear(x, y); lemma_bits_linear(crc_bit_step(x), crc_bit_step(y), (n - 1) as nat); }
}
pub proof fn lemma_bits_low(x: u32)
    requires x & 0xFF00_0000u32 == 0,
    ensures crc_bits(x, 8) == x << 8
{
    reveal_with_fuel(crc_bits, 9);
    assert(x & 0xFF00_0000u32 == 0 ==> ({
        let a1 = if x & 0x8000_0000u32 != 0 { (x << 1) ^ 0x04C1_1DB7u32 } else { x << 1 };
        let a2 = if a1 & 0x8000_0000u32 != 0 { (a1 << 1) ^ 0x04C1_1DB7u32 } else { a1 << 1 };
        let a3 = if a2 & 0x8000_0000u32 != 0 { (a2 << 1) ^ 0x04C1_1DB7u32 } else { a2 << 1 };
        let a4 = if a3 & 0x8000_0000u32 != 0 { (a3 << 1) ^ 0x04C1_1DB7u32 } else { a3 << 1 };
        let a5 = if a4 & 0x8000_0000u32 != 0 { (a4 << 1) ^ 0x04C1_1DB7u32 } else { a4 << 1 };
        let a6 = if a5 & 0x8000_0000u32 != 0 { (a5 << 1) ^ 0x04C1_1DB7u32 } else { a5 << 1 };
        let a7 = if a6 & 0x8000_0000u32 != 0 { (a6 << 1) ^ 0x04C1_1DB7u32 } else { a6 << 1 };
        let a8 = if a7 & 0x8000_0000u32 != 0 { (a7 << 1) ^ 0x04C1_1DB7u32 } else { a7 << 1 };
        a8 == x << 8 })) by (bit_vector);
}
/// the table-driven byte step equals eight bitwise rounds (for any table whose entry i is crc_bits(i << 24, 8))
pub proof fn lemma_byte_step(acc: u32, b: u8)
    ensures
        ((acc >> 24) ^ (b as u32)) < 256,
        (acc << 8) ^ crc_bits(((acc >> 24) ^ (b as u32)) << 24, 8) == crc_byte(acc, b),
{
    let hi = ((acc >> 24) ^ (b as u32)) << 24;
    let lo = acc & 0x00FF_FFFFu32;
    let bb = b as u32;
    assert(((acc >> 24) ^ bb) < 256) by (bit_vector) requires bb < 256;
    assert(acc ^ (bb << 24) == lo ^ hi) by (bit_vector)
        requires hi == ((acc >> 24) ^ bb) << 24, lo == acc & 0x00FF_FFFFu32, bb < 256;
    assert(lo & 0xFF00_0000u32 == 0 && lo << 8 == acc << 8) by (bit_vector) requires lo == acc & 0x00FF_FFFFu32;
    lemma_bits_low(lo);
    lemma_bits_linear(lo, hi, 8);
    assert(crc_bits(lo, 8) ^ crc_bits(hi, 8) == crc_bits(hi, 8) ^ crc_bits(lo, 8)) by {
        let p = crc_bits(lo, 8); let q = crc_bits(hi, 8);
        assert(p ^ q == q ^ p) by (bit_vector);
    }
    let p = acc << 8; let q = crc_bits(hi, 8);
    assert(p ^ q == q ^ p) by (bit_vector);
}
pub proof fn lemma_fold_append(c: u32, a: Seq<u8>, b: Seq<u8>)
    ensures crc_fold(c, a + b) == crc_fold(crc_fold(c, a), b)
    decreases b.len()
{
    if b.len() == 0 { assert(a + b =~= a); }
    else { assert((a + b).drop_last() =~= a + b.drop_last()); assert((a + b).last() == b.last()); lemma_fold_append(c, a, b.drop_last()); }
}
/// catalogue check value of CRC-32/MPEG-2: crc("123456789") = 0x0376E6E7
pub proof fn lemma_crc_check_value()
    ensures crc_mpeg2(seq![0x31u8, 0x32, 0x33, 0x34, 0x35, 0x36, 0x37, 0x38, 0x39]) == 0x0376_E6E7u32
{
    assert(crc_mpeg2(seq![0x31u8, 0x32, 0x33, 0x34, 0x35, 0x36, 0x37, 0x38, 0x39]) == 0x0376_E6E7u32) by (compute_only);
}

// @MODULE_TAIL
} // verus!
