// Copyright 2023, Viveris Technologies
// Distributed under the terms of the MIT License
//! `dvb_gse_rust` is a library for encapsulating GSE packets from a payload and metadata into a buffer, and for decapsulating GSE packets from a buffer back into a payload and metadata.
//! 
//! The library adheres to the DVB-GSE standards and supports features such as Label Reuse, header extensions, and other functionalities of the GSE protocol, including fragmentation.
//! 
//! This library is flexible. Users can define and change the behavior of the buffer used in decapsulation and use their own CRC calculator without impacting runtime performance, thanks to Rust traits.
//! 
//! To customize decapsulation buffers, see the [`gse_decap::gse_decap_memory`] module. \
//! To customize CRC calculation, see the [`crc`] module.
//! 
//! Encapsulation is handled by the `Encapsulator` struct. For more information, see the [`gse_encap`] module. \
//! Decapsulation is handled by the `Decapsulator` struct. For more information, see the [`gse_decap`] module. 
//! 
//! # Example
//!
//! Here is an example of encapsulating and decapsulating a GSE packet:
//!
//! ```
//! use dvb_gse_rust::gse_encap::{Encapsulator, EncapMetadata, EncapStatus};
//! use dvb_gse_rust::gse_decap::{Decapsulator, DecapMetadata, DecapStatus, SimpleGseMemory, GseDecapMemory};
//! use dvb_gse_rust::label::Label;
//! use dvb_gse_rust::crc::DefaultCrc;
//! use dvb_gse_rust::header_extension::SimpleMandatoryExtensionHeaderManager;
//!
//! // Metadata and Payload (pdu) has to be set :
//! let protocol_type = 0xFFFF;
//! let label = Label::SixBytesLabel(*b"012345");
//! let metadata = EncapMetadata {
//!     protocol_type: protocol_type,
//!     label: label,
//! };
//! let default_frag_id = 1;
//! let pdu = b"abcdefghijklmnopqrstuvwxyz";
//!
//! // The packet has to be written in a buffer
//! let mut buffer = [0; 1000];
//!
//! // Creation of the encapsulator with his crc calculation trait
//! let mut encapsulator = Encapsulator::new(DefaultCrc {});
//!
//! // Thus, the buffer can be fulfilled with the payload encapsulated in a gse packet
//! let encap_status = encapsulator.encap(pdu, default_frag_id, metadata, &mut buffer);
//!
//! // The pdu decapsulated from the buffer has to be written in a buffer from memory
//! let size_memory = 1;
//! let pdu_len = 26;
//! let mut memory = SimpleGseMemory::new(size_memory, pdu_len, 0, 0);
//! let storage = vec![0; pdu_len].into_boxed_slice();
//! memory.provision_storage(storage).unwrap();
//!
//! // Creation of the decapsulator with his crc calculation trait and his memory
//! let mut decapsulator = Decapsulator::new(memory, DefaultCrc {} , SimpleMandatoryExtensionHeaderManager {});
//!
//! // Next, the gse packet can be decapsulated
//! let (decap_status, pkt1_len) = match decapsulator.decap(&buffer) { Ok((decap_status, pkt_len)) => (decap_status, pkt_len), Err(_) => unreachable!() };
//!
//! // Finally, the pdu and the metadata received can be compared with those sent
//! let exp_decap_status = DecapStatus::CompletedPkt(
//!    Box::new(*b"abcdefghijklmnopqrstuvwxyz"),
//!    DecapMetadata::new(
//!         pdu.len(),
//!         protocol_type,
//!         label,
//!         vec![],
//!    ),
//! );
//! assert_eq!(decap_status, exp_decap_status);
//! ```
//!
//! # Example of the fragmentation of a pdu in different gse packets
//!
//! ```
//! use dvb_gse_rust::gse_encap::{Encapsulator, EncapMetadata, EncapStatus, EncapError};
//! use dvb_gse_rust::gse_decap::{Decapsulator, DecapMetadata, DecapStatus, SimpleGseMemory, GseDecapMemory};
//! use dvb_gse_rust::label::Label;
//! use dvb_gse_rust::crc::DefaultCrc;
//! use dvb_gse_rust::header_extension::SimpleMandatoryExtensionHeaderManager;
//! // Metadata and Payload (pdu) has to be set :
//! let protocol_type = 0xFFFF;
//! let label = Label::SixBytesLabel(*b"012345");
//! let metadata = EncapMetadata {
//!     protocol_type: protocol_type,
//!     label: label,
//! };
//! let default_frag_id = 1;
//! let pdu = b"abcdefghijklmnopqrstuvwxyz";
//!
//! // The packet has to be written in a buffer.
//! let mut buffer = [0; 1000];
//!
//! // Creation of the encapsulator with his crc calculation trait
//! let mut encapsulator = Encapsulator::new(DefaultCrc {});
//!
//! // Thus, the buffer can be fulfilled with the payload encapsulated in different gse packet
//! let encap_first_frag_status = encapsulator.encap(pdu, default_frag_id, metadata, &mut buffer[0..15]);
//! let context_frag1 = match encap_first_frag_status { Ok(EncapStatus::FragmentedPkt(_, context_frag)) => context_frag, _=> unreachable!() };
//! let encap_intermediate_status =  encapsulator.encap_frag(pdu, &context_frag1, &mut buffer[15..30]);
//! let context_frag2 = match encap_intermediate_status { Ok(EncapStatus::FragmentedPkt(_, context_frag)) => context_frag, _ => unreachable!() };
//! let encap_end_frag_status =  encapsulator.encap_frag(pdu, &context_frag2, &mut buffer[30..1000]);
//!
//! // The pdu decapsulated from the buffer has to be written in a buffer from memory
//! let size_memory = 1;
//! let pdu_len = 26;
//! let mut memory = SimpleGseMemory::new(size_memory, pdu_len, 0, 0);
//! let storage = vec![0; pdu_len].into_boxed_slice();
//! memory.provision_storage(storage).unwrap();
//!
//! // Creation of the decapsulator with his crc calculation trait and his memory
//! let mut decapsulator = Decapsulator::new(memory, DefaultCrc {}, SimpleMandatoryExtensionHeaderManager {});
//!
//! // Next, the 3 gse packets can be decapsulated
//! let (decap_status, pkt1_len) = match decapsulator.decap(&buffer) { Ok((decap_status, pkt_len)) => (decap_status, pkt_len), Err(_) => unreachable!() };
//! let (decap_intermediate_status, pkt2_len) =  match decapsulator.decap(&buffer[pkt1_len..]) { Ok((decap_status, pkt_len)) => (decap_status, pkt_len), Err(_) => unreachable!() };
//! let (decap_end_frag_status, pkt3_len) = match decapsulator.decap(&buffer[pkt1_len+pkt2_len..]) { Ok((decap_status, pkt_len)) => (decap_status, pkt_len), Err(_) => unreachable!() };
//!
//! // Finally, the pdu and the metadata received can be compared with those sent
//! let exp_decap_end_frag_status = DecapStatus::CompletedPkt(
//!    Box::new(*b"abcdefghijklmnopqrstuvwxyz"),
//!    DecapMetadata::new(
//!     pdu.len(),
//! protocol_type,
//! label,
//! vec![])
//! );
//! assert_eq!(decap_end_frag_status, exp_decap_end_frag_status);
//! ```

pub mod crc;
pub mod gse_decap;
pub mod gse_encap;
pub mod gse_standard;
pub mod header_extension;
pub mod label;
mod pkt_type;
pub mod utils;
