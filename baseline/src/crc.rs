// Copyright 2023, Viveris Technologies
// Distributed under the terms of the MIT License

//! Module for Cyclic Redundancy Check
//!
//! This module contains the trait crc and it's default naive implementation.
//! 
//! The trait [`CrcCalculator`] declares the function [`CrcCalculator::calculate_crc32`] used to compute Crc. \
//! [`DefaultCrc`] computes the Crc (in big endian).
use crate::gse_standard::CRC_INIT;

/// Trait defining the computation of the CRC.
pub trait CrcCalculator {
    /// Calculate 32bit CRC for `pdu`, `total_length`, `protocol_type` and `label`
    fn calculate_crc32(
        &self,
        pdu: &[u8],
        protocol_type: u16,
        total_length: u16,
        label: &[u8],
    ) -> u32;
}

/** CRC-32 table */
#[allow(clippy::unreadable_literal)]
const CRC_TAB: &[u32] = &[
    0x0, 0x04c11db7, 0x09823b6e, 0x0d4326d9, 0x130476dc, 0x17c56b6b, 0x1a864db2, 0x1e475005,
    0x2608edb8, 0x22c9f00f, 0x2f8ad6d6, 0x2b4bcb61, 0x350c9b64, 0x31cd86d3, 0x3c8ea00a, 0x384fbdbd,
    0x4c11db70, 0x48d0c6c7, 0x4593e01e, 0x4152fda9, 0x5f15adac, 0x5bd4b01b, 0x569796c2, 0x52568b75,
    0x6a1936c8, 0x6ed82b7f, 0x639b0da6, 0x675a1011, 0x791d4014, 0x7ddc5da3, 0x709f7b7a, 0x745e66cd,
    0x9823b6e0, 0x9ce2ab57, 0x91a18d8e, 0x95609039, 0x8b27c03c, 0x8fe6dd8b, 0x82a5fb52, 0x8664e6e5,
    0xbe2b5b58, 0xbaea46ef, 0xb7a96036, 0xb3687d81, 0xad2f2d84, 0xa9ee3033, 0xa4ad16ea, 0xa06c0b5d,
    0xd4326d90, 0xd0f37027, 0xddb056fe, 0xd9714b49, 0xc7361b4c, 0xc3f706fb, 0xceb42022, 0xca753d95,
    0xf23a8028, 0xf6fb9d9f, 0xfbb8bb46, 0xff79a6f1, 0xe13ef6f4, 0xe5ffeb43, 0xe8bccd9a, 0xec7dd02d,
    0x34867077, 0x30476dc0, 0x3d044b19, 0x39c556ae, 0x278206ab, 0x23431b1c, 0x2e003dc5, 0x2ac12072,
    0x128e9dcf, 0x164f8078, 0x1b0ca6a1, 0x1fcdbb16, 0x018aeb13, 0x054bf6a4, 0x0808d07d, 0x0cc9cdca,
    0x7897ab07, 0x7c56b6b0, 0x71159069, 0x75d48dde, 0x6b93dddb, 0x6f52c06c, 0x6211e6b5, 0x66d0fb02,
    0x5e9f46bf, 0x5a5e5b08, 0x571d7dd1, 0x53dc6066, 0x4d9b3063, 0x495a2dd4, 0x44190b0d, 0x40d816ba,
    0xaca5c697, 0xa864db20, 0xa527fdf9, 0xa1e6e04e, 0xbfa1b04b, 0xbb60adfc, 0xb6238b25, 0xb2e29692,
    0x8aad2b2f, 0x8e6c3698, 0x832f1041, 0x87ee0df6, 0x99a95df3, 0x9d684044, 0x902b669d, 0x94ea7b2a,
    0xe0b41de7, 0xe4750050, 0xe9362689, 0xedf73b3e, 0xf3b06b3b, 0xf771768c, 0xfa325055, 0xfef34de2,
    0xc6bcf05f, 0xc27dede8, 0xcf3ecb31, 0xcbffd686, 0xd5b88683, 0xd1799b34, 0xdc3abded, 0xd8fba05a,
    0x690ce0ee, 0x6dcdfd59, 0x608edb80, 0x644fc637, 0x7a089632, 0x7ec98b85, 0x738aad5c, 0x774bb0eb,
    0x4f040d56, 0x4bc510e1, 0x46863638, 0x42472b8f, 0x5c007b8a, 0x58c1663d, 0x558240e4, 0x51435d53,
    0x251d3b9e, 0x21dc2629, 0x2c9f00f0, 0x285e1d47, 0x36194d42, 0x32d850f5, 0x3f9b762c, 0x3b5a6b9b,
    0x0315d626, 0x07d4cb91, 0x0a97ed48, 0x0e56f0ff, 0x1011a0fa, 0x14d0bd4d, 0x19939b94, 0x1d528623,
    0xf12f560e, 0xf5ee4bb9, 0xf8ad6d60, 0xfc6c70d7, 0xe22b20d2, 0xe6ea3d65, 0xeba91bbc, 0xef68060b,
    0xd727bbb6, 0xd3e6a601, 0xdea580d8, 0xda649d6f, 0xc423cd6a, 0xc0e2d0dd, 0xcda1f604, 0xc960ebb3,
    0xbd3e8d7e, 0xb9ff90c9, 0xb4bcb610, 0xb07daba7, 0xae3afba2, 0xaafbe615, 0xa7b8c0cc, 0xa379dd7b,
    0x9b3660c6, 0x9ff77d71, 0x92b45ba8, 0x9675461f, 0x8832161a, 0x8cf30bad, 0x81b02d74, 0x857130c3,
    0x5d8a9099, 0x594b8d2e, 0x5408abf7, 0x50c9b640, 0x4e8ee645, 0x4a4ffbf2, 0x470cdd2b, 0x43cdc09c,
    0x7b827d21, 0x7f436096, 0x7200464f, 0x76c15bf8, 0x68860bfd, 0x6c47164a, 0x61043093, 0x65c52d24,
    0x119b4be9, 0x155a565e, 0x18197087, 0x1cd86d30, 0x029f3d35, 0x065e2082, 0x0b1d065b, 0x0fdc1bec,
    0x3793a651, 0x3352bbe6, 0x3e119d3f, 0x3ad08088, 0x2497d08d, 0x2056cd3a, 0x2d15ebe3, 0x29d4f654,
    0xc5a92679, 0xc1683bce, 0xcc2b1d17, 0xc8ea00a0, 0xd6ad50a5, 0xd26c4d12, 0xdf2f6bcb, 0xdbee767c,
    0xe3a1cbc1, 0xe760d676, 0xea23f0af, 0xeee2ed18, 0xf0a5bd1d, 0xf464a0aa, 0xf9278673, 0xfde69bc4,
    0x89b8fd09, 0x8d79e0be, 0x803ac667, 0x84fbdbd0, 0x9abc8bd5, 0x9e7d9662, 0x933eb0bb, 0x97ffad0c,
    0xafb010b1, 0xab710d06, 0xa6322bdf, 0xa2f33668, 0xbcb4666d, 0xb8757bda, 0xb5365d03, 0xb1f740b4,
];

fn crc32(data: &[u8], crc: u32) -> u32 {
    return data.iter().fold(crc, |acc, octet| {
        (acc << 8) ^ CRC_TAB[((acc >> 24) ^ *octet as u32) as usize]
    });
}

/// Implementation of the `CrcCalculator` trait.
/// The function is not optimized and works in big endian.
#[derive(Debug, PartialEq, Eq, Clone)]
pub struct DefaultCrc;
impl CrcCalculator for DefaultCrc {
    fn calculate_crc32(
        &self,
        pdu: &[u8],
        protocol_type: u16,
        total_length: u16,
        label: &[u8],
    ) -> u32 {
        let mut crc = crc32(&total_length.to_be_bytes(), CRC_INIT);
        crc = crc32(&protocol_type.to_be_bytes(), crc);
        crc = crc32(label, crc);
        crc = crc32(pdu, crc);

        crc
    }
}

/// Calculate CRC test
#[test]
fn test_calculate_crc32_001() {
    let (pdu_in, protocol_type_in, total_length_in, label_in) = (&[], 0, 0, &[]);
    let crc_exp = crc32(&[0, 0, 0, 0], CRC_INIT);

    let crc_calculator = DefaultCrc {};
    let crc_obs =
        crc_calculator.calculate_crc32(pdu_in, protocol_type_in, total_length_in, label_in);

    assert_eq!(crc_exp, crc_obs);
}

/// Calculate CRC test
#[test]
fn test_calculate_crc32_002() {
    let (pdu_in, protocol_type_in, total_length_in, label_in) = (&[0], 0, 0, &[0]);
    let crc_exp = crc32(&[0, 0, 0, 0, 0, 0], CRC_INIT);

    let crc_calculator = DefaultCrc {};
    let crc_obs =
        crc_calculator.calculate_crc32(pdu_in, protocol_type_in, total_length_in, label_in);

    assert_eq!(crc_exp, crc_obs);
}

/// Calculate CRC test
#[test]
fn test_calculate_crc32_003() {
    let (pdu_in, protocol_type_in, total_length_in, label_in): (&[u8], u16, u16, &[u8]) =
        (&[0xAB, 0xCD], 0x0000000A, 0x00000064, &[0xDF]);

    let mut data: [u8; 7] = [0; 7];
    data[0..2].copy_from_slice(&total_length_in.to_be_bytes());
    data[2..4].copy_from_slice(&protocol_type_in.to_be_bytes());
    data[4..5].copy_from_slice(label_in);
    data[5..7].copy_from_slice(pdu_in);

    let crc_exp = crc32(&data, CRC_INIT);

    let crc_calculator = DefaultCrc {};
    let crc_obs =
        crc_calculator.calculate_crc32(pdu_in, protocol_type_in, total_length_in, label_in);

    assert_eq!(crc_exp, crc_obs);
}

/// Calculate CRC test
#[test]
fn test_calculate_crc32_004() {
    let (pdu_in, protocol_type_in, total_length_in, label_in) = (&[], 0, 0, &[]);
    let crc_exp = crc32(&[0, 0, 0, 0], CRC_INIT);

    let crc_calculator = DefaultCrc {};
    let crc_obs =
        crc_calculator.calculate_crc32(pdu_in, protocol_type_in, total_length_in, label_in);

    assert_eq!(crc_exp, crc_obs);
}
