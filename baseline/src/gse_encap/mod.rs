// Copyright 2023, Viveris Technologies
// Distributed under the terms of the MIT License

//! Module for GSE encapsulation
//!
//! The encapsulation module follows the dvb gse standard.
//! It supports complete packet, first fragment packet, intermediate fragment packet, end fragment packet and padding.
//! It also allows you to manage any type of label including the re-use label.

use crate::crc::CrcCalculator;
use crate::gse_standard::{
    COMPLETE_PKT, CRC_LEN, END_PKT, FIRST_FRAG_LEN, FIRST_PKT, FIXED_HEADER_LEN, FRAG_ID_LEN,
    GSE_LEN_MASK, GSE_LEN_MAX, INTERMEDIATE_PKT, LABEL_3_B, LABEL_6_B, LABEL_BROADCAST,
    LABEL_REUSE, LABEL_TYPE_MASK, MAX_MANDATORY_VAL_PTYPE, PROTOCOL_LEN, SECOND_RANGE_PTYPE,
    START_END_MASK, TOTAL_LENGTH_LEN, TOTAL_LEN_MAX,
};

use crate::label::Label;
use crate::label::LabelType;
use crate::pkt_type::PktType;

use crate::header_extension::{Extension, ExtensionData};

#[cfg(test)]
mod tests;

#[derive(PartialEq, Eq, Debug, Clone, Copy)]
/// Contains Metadata used for encapsulation
///
/// *   Protocol type describe the protocol of that pdu
/// *   Label describe the recipient of that pdu
pub struct EncapMetadata {
    pub protocol_type: u16,
    pub label: Label,
}

impl EncapMetadata {
    pub fn new(protocol_type: u16, label: Label) -> Self {
        Self {
            protocol_type,
            label,
        }
    }
}
#[derive(PartialEq, Eq, Debug, Clone, Copy)]
/// Define the context of the fragmentation
/// *   Frag Id describe the fragment id
/// *   Crc describe the cyclic redundancy check
/// *   Len pdu frag describe the len of the pdu already written
pub struct ContextFrag {
    frag_id: u8,
    crc: u32,
    len_pdu_frag: u16,
}

impl ContextFrag {
    pub fn new(frag_id: u8, crc: u32, len_pdu_frag: u16) -> Self {
        Self {
            frag_id,
            crc,
            len_pdu_frag,
        }
    }

    pub fn frag_id(&self) -> u8 {
        self.frag_id
    }
    pub fn crc(&self) -> u32 {
        self.crc
    }
    pub fn len_pdu_frag(&self) -> u16 {
        self.len_pdu_frag
    }
}

#[derive(PartialEq, Eq, Debug)]
/// Define the status of the encapsulation.
/// If a pdu is encapsulated, the status return the length of the packet by the option completed packet.
pub enum EncapStatus {
    CompletedPkt(u16),
    FragmentedPkt(u16, ContextFrag),
}

impl EncapStatus {
    pub fn to_str(&self) -> &'static str {
        match self {
            Self::CompletedPkt(_) => "Fully encapsulated packet",
            Self::FragmentedPkt(_, _) => "Partially encapsulated packet",
        }
    }
}

#[derive(PartialEq, Eq, Debug)]
/// Error returned by [`Encapsulator::encap`], [`Encapsulator::encap_frag`], or [`Encapsulator::encap_ext`] functions function during failure.
///
/// This enum is used as the `Err` variant in a `Result` type.
pub enum EncapError {
    /// Indicates that the output buffer is too small to accommodate the encapsulated packet.
    ErrorSizeBuffer,

    /// Indicates that the packet size exceeds the maximum allowed value for the GSE protocol (65535 bytes).
    ErrorPduLength,

    /// Indicates that the provided protocol type is invalid.
    ErrorProtocolType,

    /// Indicates that the provided label is a Six-Byte Label `{0, 0, 0, 0, 0, 0}`, which should only be used for padding purposes.
    ErrorInvalidLabel,

    /// Indicates that [`Encapsulator::encap_ext`] was called without providing an extension. Use [`Encapsulator::encap`] in this case.
    ErrorNoExtensionFound,

    /// Indicates that a final mandatory extension was provided, but the protocol type differs from the final extension ID. This extension should replace the protocol type.
    ErrorFinalMandatoryExtensionHeader,
}

impl EncapError {
    pub fn to_str(&self) -> &'static str {
        match self {
            Self::ErrorSizeBuffer => "Too small buffer",
            Self::ErrorPduLength => "Too large pdu to be stocked in total_length",
            Self::ErrorProtocolType => "Extension header are not implemented",
            Self::ErrorInvalidLabel => "Label 6B [0, 0, 0, 0, 0, 0] shall not be used",
            Self::ErrorNoExtensionFound => "Use of encap_ext without header extension to add",
            Self::ErrorFinalMandatoryExtensionHeader => "in encap_ext, if protocol type corresponds to mandatory header extension, it should \
            be equal to the id of the last extension that must be a mandatory header extension",
        }
    }
}

/// Structure Encapsulator
///
/// The object oriented structure Encapsulator saves the trait of crc calculation and allows an autonomous use of the Re Use Label.
///
/// When `re_use_activated` is true : the autonomous use of Re Use Label is enable.
/// Then, if the label of the pdu is 3 or 6 Bytes and it is the same as `last_label`, the label sent in the next packet will be a Re Use Label.
/// Else, the last label is updated.
///
/// The last label has to be reset by the user at the begining of each new base band frame.
/// Or is optionally reset after `re_max_consecutive` Re Use Labels have been emitted, unless
/// this attribute is set to 0 (default).
#[derive(Debug, PartialEq, Eq, Clone)]
pub struct Encapsulator<C: CrcCalculator> {
    crc_calculator: C,
    re_use_activated: bool,
    re_max_consecutive: u8,
    re_current_consecutive: u8,
    last_label: Option<Label>,
}

impl<C: CrcCalculator> Encapsulator<C> {
    /// Encapsulator constructor
    pub fn new(crc_calculator: C) -> Encapsulator<C> {
        Encapsulator {
            last_label: None,
            crc_calculator,
            re_use_activated: true,
            re_max_consecutive: 0,
            re_current_consecutive: 0,
        }
    }

    pub fn set_crc_calculator(&mut self, calculator: C) {
        self.crc_calculator = calculator;
    }

    pub fn get_crc_calculator(&mut self) -> &C {
        &self.crc_calculator
    }

    /// Set the last label at None, it has to be done at the begining of each new base band frame
    pub fn reset_last_label(&mut self) {
        self.last_label = None;
    }

    pub fn disable_re_use_label(&mut self) {
        self.re_use_activated = false;
        self.re_max_consecutive = 0;
        self.re_current_consecutive = 0;
    }

    pub fn enable_re_use_label(&mut self) {
        // the label memory is not maintained while the re-use is disabled: start from an empty one
        self.last_label = None;
        self.re_use_activated = true;
        self.re_max_consecutive = 0;
        self.re_current_consecutive = 0;
    }

    pub fn enable_re_use_label_with_max_consecutive(&mut self, max_consecutive: u8) {
        // the label memory is not maintained while the re-use is disabled: start from an empty one
        self.last_label = None;
        self.re_use_activated = true;
        self.re_max_consecutive = max_consecutive;
        self.re_current_consecutive = 0;
    }

    pub fn is_enabled_re_use_label(&mut self) -> bool {
        self.re_use_activated
    }

    fn check_label_re_use(&mut self, next_label: Label) -> Label {
        if self.re_use_activated {
            // check label reuse
            if Some(next_label) == self.last_label {
                if self.re_max_consecutive == 0u8 {
                    return Label::ReUse;
                } else {
                    if self.re_current_consecutive < self.re_max_consecutive {
                        self.re_current_consecutive += 1;
                        return Label::ReUse;
                    } else {
                        self.re_current_consecutive = 0;
                    }
                }
            }

            // update last_label
            if next_label == Label::Broadcast {
                self.last_label = None;
            } else if next_label != Label::ReUse {
                self.last_label = Some(next_label);
            }
        }
        return next_label;
    }

    /// GSE encapsulation of a gse header and the payload in a buffer
    ///
    /// The metadata and the pdu are written in the buffer next the gse header and the function returns the size of the packet if the encapsulation succeed.
    /// If the buffer is large enough, the pdu is completely encapsulated and the function returns the status completed packet.
    /// Else, the pdu is partially encapsulated and a context of fragmentation is returned with the status fragmented packet.
    /// If the pdu can not be encapsulated, it returns the error status.
    ///
    /// # Example of encapsulating a complete payload in a gse packet
    /// ```
    /// use dvb_gse_rust::crc::DefaultCrc;
    /// use dvb_gse_rust::label::Label;
    /// use dvb_gse_rust::gse_encap::{Encapsulator, EncapMetadata, EncapStatus, EncapError};
    ///
    ///
    /// // Metadata and Payload (pdu) has to be set :
    /// let protocol_type = 0xFFFF;
    /// let label = Label::SixBytesLabel(*b"012345");
    /// let metadata = EncapMetadata {
    ///     protocol_type: protocol_type,
    ///     label: label,
    /// };
    /// let default_frag_id = 1;
    /// let pdu = b"abcdefghijklmnopqrstuvwxyz";
    ///
    /// // The packet has to be written in a buffer
    /// let mut buffer = [0; 1000];
    ///
    /// // Creation of the encapsulator with his crc calculation trait
    /// let mut encapsulator = Encapsulator::new(DefaultCrc {});
    ///
    /// // Thus, the buffer can be fulfilled with the payload encapsulated in a gse packet
    /// let encap_status = encapsulator.encap(pdu, default_frag_id, metadata, &mut buffer);
    /// let exp_encap_status = Ok(EncapStatus::CompletedPkt((2+2+label.len()+pdu.len()) as u16));
    /// assert_eq!(encap_status, exp_encap_status);
    ///
    /// ```
    ///
    /// # Example of encapsulating a fragmented payload in a gse packet
    /// ```
    /// use dvb_gse_rust::crc::{DefaultCrc, CrcCalculator};
    /// use dvb_gse_rust::label::Label;
    /// use dvb_gse_rust::gse_encap::{Encapsulator, EncapMetadata, EncapStatus, EncapError, ContextFrag};
    ///
    ///
    /// // Metadata and Payload (pdu) has to be set :
    /// let protocol_type = 0xFFFF;
    /// let label = Label::SixBytesLabel(*b"012345");
    /// let metadata = EncapMetadata {
    ///     protocol_type: protocol_type,
    ///     label: label,
    /// };
    /// let default_frag_id = 1;
    /// let pdu = b"abcdefghijklmnopqrstuvwxyz";
    ///
    /// // The packet has to be written in a buffer
    /// let mut buffer = [0; 20];
    ///
    /// // Creation of the encapsulator with his crc calculation trait
    /// let mut encapsulator = Encapsulator::new(DefaultCrc {});
    ///
    /// // Thus, the buffer can be fulfilled with a fragment of the payload encapsulated in a gse packet
    /// let encap_status = encapsulator.encap(pdu, default_frag_id, metadata, &mut buffer);
    /// let crc = DefaultCrc{}.calculate_crc32(&pdu[..], protocol_type, (pdu.len()+label.len()+2).try_into().unwrap(), label.get_bytes());
    /// let exp_encap_status = Ok(EncapStatus::FragmentedPkt(20, ContextFrag::new( default_frag_id, crc, 7 )));
    /// assert_eq!(encap_status, exp_encap_status);
    ///
    /// ```
    ///
    /// # Example of unsuccessful encapsulation
    ///
    /// ```
    /// use dvb_gse_rust::label::Label;
    /// use dvb_gse_rust::gse_encap::{Encapsulator, EncapMetadata, EncapStatus, EncapError};
    /// use dvb_gse_rust::crc::DefaultCrc;
    ///
    /// // Metadata and Payload (pdu) has to be set :
    /// let protocol_type = 0xFFFF;
    /// let label = Label::SixBytesLabel(*b"012345");
    /// let metadata = EncapMetadata {
    ///     protocol_type: protocol_type,
    ///     label: label,
    /// };
    /// let default_frag_id = 1;
    /// let pdu = b"abcdefghijklmnopqrstuvwxyz";
    ///
    /// // The packet has to be written in a buffer
    /// let mut buffer = [0; 10];
    ///
    /// // Creation of the encapsulator with his crc calculation trait
    /// let mut encapsulator = Encapsulator::new(DefaultCrc {});
    ///
    /// // Thus, the buffer can not be fulfilled with the payload because the buffer is too small
    /// let encap_status = encapsulator.encap(pdu, default_frag_id, metadata, &mut buffer);
    /// let exp_encap_status = Err(EncapError::ErrorSizeBuffer);
    /// assert_eq!(encap_status, exp_encap_status);
    ///
    /// ```
    pub fn encap(
        &mut self,
        pdu: &[u8],
        frag_id: u8,
        metadata: EncapMetadata,
        buffer: &mut [u8],
    ) -> Result<EncapStatus, EncapError> {
        let mut label = metadata.label;
        let protocol_type = metadata.protocol_type;

        // check label
        if label == Label::SixBytesLabel([0, 0, 0, 0, 0, 0]) {
            return Err(EncapError::ErrorInvalidLabel);
        }

        // check protocol_type is valid, i.e. not in range [SECOND_RANGE_PTYPE, MAX_MANDATORY_VAL_PTYPE] = [256, 1535]
        if (MAX_MANDATORY_VAL_PTYPE..SECOND_RANGE_PTYPE).contains(&protocol_type) {
            return Err(EncapError::ErrorProtocolType);
        }

        // the re-use state is only kept if the encapsulation succeeds
        let saved_last_label = self.last_label;
        let saved_current_consecutive = self.re_current_consecutive;
        label = self.check_label_re_use(label);
        let label_len = label.len();
        let pdu_len = pdu.len();
        let gse_len_min = pdu_len + label_len + PROTOCOL_LEN;

        // if it fits into a complete package
        let min_header_len = FIXED_HEADER_LEN + PROTOCOL_LEN + label_len;
        let buffer_len = buffer.len();

        let pdu_len_encapsulated: usize;
        let pkt_type: PktType;
        let gse_len: u16;

        // if all the data and metadata will fit in the buffer, and
        // if the protocol can handle the size of the packer
        if (buffer_len >= min_header_len + pdu_len) && (GSE_LEN_MAX >= gse_len_min) {
            // complet packet
            pkt_type = PktType::CompletePkt;
            pdu_len_encapsulated = pdu_len;
            gse_len = gse_len_min as u16;
        } else {
            // first packet
            let min_header_len = min_header_len + FRAG_ID_LEN + TOTAL_LENGTH_LEN;

            // check the buffer size
            // if it cannot write at least more than the header
            if buffer_len < min_header_len {
                self.last_label = saved_last_label;
                self.re_current_consecutive = saved_current_consecutive;
                return Err(EncapError::ErrorSizeBuffer);
            }

            // check the metadata len
            // if the protocol cannot handle such large amounts of data
            if TOTAL_LEN_MAX < pdu_len + PROTOCOL_LEN + label_len {
                self.last_label = saved_last_label;
                self.re_current_consecutive = saved_current_consecutive;
                return Err(EncapError::ErrorPduLength);
            }

            pkt_type = PktType::FirstFragPkt;
            // the fragment is limited by the buffer and by the 12 bits GSE length
            let pdu_len_max = GSE_LEN_MAX - (FRAG_ID_LEN + TOTAL_LENGTH_LEN + PROTOCOL_LEN + label_len);
            pdu_len_encapsulated = if buffer_len - min_header_len < pdu_len_max {
                buffer_len - min_header_len
            } else {
                pdu_len_max
            };
            gse_len =
                (FRAG_ID_LEN + TOTAL_LENGTH_LEN + PROTOCOL_LEN + label_len + pdu_len_encapsulated)
                    as u16;
        }

        // write gse fixed header
        let header = generate_gse_header(&pkt_type, &label.get_type(), gse_len);
        let mut offset = FIXED_HEADER_LEN;
        buffer[..offset].copy_from_slice(&header.to_be_bytes());

        let encap_status = match pkt_type {
            PktType::FirstFragPkt => {
                // write fragId
                buffer[offset..offset + FRAG_ID_LEN].copy_from_slice(&frag_id.to_be_bytes());
                offset += FRAG_ID_LEN;

                // write total_length
                let total_len = (pdu_len + PROTOCOL_LEN + label_len) as u16;
                buffer[offset..offset + TOTAL_LENGTH_LEN].copy_from_slice(&total_len.to_be_bytes());
                offset += TOTAL_LENGTH_LEN;

                // define context frag
                let context_frag = ContextFrag {
                    frag_id,
                    crc: self.crc_calculator.calculate_crc32(
                        &pdu[..pdu_len],
                        protocol_type,
                        total_len,
                        label.get_bytes(),
                    ),
                    len_pdu_frag: pdu_len_encapsulated as u16,
                };

                // define encap status
                let pkt_len = FIRST_FRAG_LEN + label_len + pdu_len_encapsulated;
                EncapStatus::FragmentedPkt(pkt_len as u16, context_frag)
            }
            _ => EncapStatus::CompletedPkt(gse_len + FIXED_HEADER_LEN as u16),
        };

        // write protocol type
        buffer[offset..offset + PROTOCOL_LEN].copy_from_slice(&protocol_type.to_be_bytes());
        offset += PROTOCOL_LEN;

        // write label
        buffer[offset..offset + label_len].copy_from_slice(label.get_bytes());
        offset += label_len;

        // write pdu
        buffer[offset..offset + pdu_len_encapsulated].copy_from_slice(&pdu[..pdu_len_encapsulated]);

        // return status
        Ok(encap_status)
    }

    /// GSE encapsulation of a fragment of a PDU in a buffer
    ///
    /// If the fragment encapsulated in packet fits into the buffer, the function returns the status packet completed.
    /// Else, the fragmented pdu is partially encapsulated and a context of fragmentation is returned with the status fragmented packet.
    /// If the pdu can not be encapsulated, it returns the error status.
    ///
    /// # Example of encapsulating the entire pdu fragment in a gse packet
    /// ```
    /// use dvb_gse_rust::crc::DefaultCrc;
    /// use dvb_gse_rust::gse_encap::{Encapsulator, ContextFrag, EncapStatus, EncapError};
    ///
    /// // Context of fragmentation and pdu has to be defined
    /// let default_frag_id = 1;
    /// let default_crc = 1;
    /// let len_pdu_frag= 1;
    /// let pdu = *b"-abcdefghijklmnopqrstuvwxyz";
    /// let context_frag = ContextFrag::new( default_frag_id, default_crc, len_pdu_frag);
    ///
    /// // The packet has to be written in a buffer
    /// let mut buffer = [0; 1000];
    ///
    /// // Creation of the encapsulator with his crc calculation trait
    /// let mut encapsulator = Encapsulator::new(DefaultCrc {});
    ///
    /// // Thus, the buffer can be fulfilled with the payload encapsulated in a gse packet
    /// let encap_status = encapsulator.encap_frag(&pdu, &context_frag, &mut buffer);
    /// let exp_encap_status = Ok(EncapStatus::CompletedPkt((2+1+pdu.len()+4) as u16 - len_pdu_frag));
    /// assert_eq!(encap_status, exp_encap_status);
    ///  ```
    ///
    /// # Example of partial encapsulation of the pdu fragment in a gse packet
    /// ```
    /// use dvb_gse_rust::crc::DefaultCrc;
    /// use dvb_gse_rust::gse_encap::{Encapsulator, ContextFrag, EncapStatus, EncapError};
    ///
    /// // Context of fragmentation and pdu has to be defined
    /// let default_frag_id = 1;
    /// let default_crc = 1;
    /// let len_pdu_frag= 1;
    /// let pdu = *b"-abcdefghijklmnopqrstuvwxyz";
    /// let context_frag = ContextFrag::new( default_frag_id, default_crc, len_pdu_frag );
    ///
    /// // The packet has to be written in a buffer
    /// let mut buffer = [0; 10];
    ///
    /// // Creation of the encapsulator with his crc calculation trait
    /// let mut encapsulator = Encapsulator::new(DefaultCrc {});
    ///
    /// // Thus, the buffer can be fulfilled with the payload encapsulated in a gse packet
    /// let encap_status = encapsulator.encap_frag(&pdu, &context_frag, &mut buffer);
    /// let exp_encap_status = Ok(EncapStatus::FragmentedPkt(10, ContextFrag::new(default_frag_id, default_crc, len_pdu_frag + 7 )));
    /// assert_eq!(encap_status, exp_encap_status);
    ///  ```
    ///
    /// # Example of unsuccessful encapsulation
    ///
    /// ```
    /// use dvb_gse_rust::crc::DefaultCrc;
    /// use dvb_gse_rust::gse_encap::{Encapsulator, ContextFrag, EncapStatus, EncapError};
    ///
    /// // Context of fragmentation and pdu has to be defined
    /// let default_frag_id = 1;
    /// let default_crc = 1;
    /// let len_pdu_frag= 1;
    /// let pdu = *b"-abcdefghijklmnopqrstuvwxyz";
    /// let context_frag = ContextFrag::new( default_frag_id, default_crc, len_pdu_frag);
    ///
    /// // The packet has to be written in a buffer
    /// let mut buffer = [0; 2];
    ///
    /// // Creation of the encapsulator with his crc calculation trait
    /// let mut encapsulator = Encapsulator::new(DefaultCrc {});
    ///
    /// // Thus, the buffer can not be fulfilled with the payload because the buffer is too small
    /// let encap_status = encapsulator.encap_frag(&pdu[..], &context_frag, &mut buffer);
    /// let exp_encap_status = Err(EncapError::ErrorSizeBuffer);
    /// assert_eq!(encap_status, exp_encap_status);
    ///
    pub fn encap_frag(
        &self,
        pdu: &[u8],
        context: &ContextFrag,
        buffer: &mut [u8],
    ) -> Result<EncapStatus, EncapError> {
        let len_pdu_frag = context.len_pdu_frag as usize;
        let frag_id = context.frag_id;
        let crc = context.crc;
        let buffer_len = buffer.len();
        let pdu_len = pdu.len();

        // Metadata error
        if len_pdu_frag > pdu_len {
            return Err(EncapError::ErrorPduLength);
        }
        let pdu_len_remaining = pdu_len - len_pdu_frag;

        let gse_end_len = FRAG_ID_LEN + pdu_len_remaining + CRC_LEN;

        let header: u16;
        let pdu_len_encapsulated: usize;
        let encap_status: EncapStatus;
        // End packet
        // if the rest of packet fits in the buffer
        // and in the 12 bits GSE length
        if buffer_len >= gse_end_len + FIXED_HEADER_LEN && gse_end_len <= GSE_LEN_MAX {
            header =
                generate_gse_header(&PktType::EndFragPkt, &LabelType::ReUse, gse_end_len as u16);
            pdu_len_encapsulated = pdu_len_remaining;

            let mut buffer_offset = FIXED_HEADER_LEN + FRAG_ID_LEN + pdu_len_encapsulated;
            buffer[buffer_offset..buffer_offset + CRC_LEN].copy_from_slice(&crc.to_be_bytes());
            buffer_offset += CRC_LEN;

            encap_status = EncapStatus::CompletedPkt(buffer_offset as u16);
        }
        // if a fragment of the rest fits in the buffer
        // (when only the crc remains, an intermediate packet would carry nothing)
        else if buffer_len > FIXED_HEADER_LEN + FRAG_ID_LEN && pdu_len_remaining > 0 {
            let gse_len: usize;

            // the fragment is limited by the buffer and by the 12 bits GSE length
            let pdu_len_available = if buffer_len - (FIXED_HEADER_LEN + FRAG_ID_LEN) < GSE_LEN_MAX - FRAG_ID_LEN {
                buffer_len - (FIXED_HEADER_LEN + FRAG_ID_LEN)
            } else {
                GSE_LEN_MAX - FRAG_ID_LEN
            };

            if pdu_len_available > pdu_len_remaining {
                gse_len = FRAG_ID_LEN + pdu_len_remaining;
                pdu_len_encapsulated = pdu_len_remaining;
            } else {
                gse_len = FRAG_ID_LEN + pdu_len_available;
                pdu_len_encapsulated = pdu_len_available;
            }

            header = generate_gse_header(
                &PktType::IntermediateFragPkt,
                &LabelType::ReUse,
                gse_len as u16,
            );

            let buffer_offset = FIXED_HEADER_LEN + gse_len;
            let new_context = ContextFrag {
                frag_id,
                crc,
                len_pdu_frag: (len_pdu_frag + pdu_len_encapsulated) as u16,
            };
            encap_status = EncapStatus::FragmentedPkt(buffer_offset as u16, new_context);
        }
        // not enough room
        else {
            return Err(EncapError::ErrorSizeBuffer);
        }

        // Write the header
        buffer[..FIXED_HEADER_LEN].copy_from_slice(&header.to_be_bytes());
        buffer[FIXED_HEADER_LEN] = frag_id;
        let buffer_offset = FIXED_HEADER_LEN + FRAG_ID_LEN;

        // Write the fragment
        buffer[buffer_offset..buffer_offset + pdu_len_encapsulated]
            .copy_from_slice(&pdu[len_pdu_frag..len_pdu_frag + pdu_len_encapsulated]);

        Ok(encap_status)
    }

    pub fn encap_ext(
        &mut self,
        pdu: &[u8],
        frag_id: u8,
        metadata: EncapMetadata,
        buffer: &mut [u8],
        extensions: Vec<Extension>,
    ) -> Result<EncapStatus, EncapError> {
        if extensions.is_empty() {
            return Err(EncapError::ErrorNoExtensionFound);
        };

        let mut label = metadata.label;
        let protocol_type = metadata.protocol_type;
        let mut is_there_final_mandatory_extension = false;
        let mut total_len_extensions: usize = 0;

        if protocol_type < MAX_MANDATORY_VAL_PTYPE {
            // the mandatory header extension replaces the protocol type
            // checking if the last extension id corresponds to this protocol type
            if extensions.last().unwrap().id() != protocol_type
                || !matches!(
                    extensions.last().unwrap().data(),
                    ExtensionData::MandatoryData(..)
                )
            {
                return Err(EncapError::ErrorFinalMandatoryExtensionHeader);
            }
            is_there_final_mandatory_extension = true;
        } else if protocol_type < SECOND_RANGE_PTYPE {
            return Err(EncapError::ErrorProtocolType);
        }

        for extension in &extensions {
            total_len_extensions += extension.len();
        }

        if is_there_final_mandatory_extension {
            total_len_extensions -= PROTOCOL_LEN; // the id of the final mandatory extension replace the protocol type len
        }
        // check label
        if label == Label::SixBytesLabel([0, 0, 0, 0, 0, 0]) {
            return Err(EncapError::ErrorInvalidLabel);
        }

        // the re-use state is only kept if the encapsulation succeeds
        let saved_last_label = self.last_label;
        let saved_current_consecutive = self.re_current_consecutive;
        label = self.check_label_re_use(label);
        let label_len = label.len();
        let pdu_len = pdu.len();
        let gse_len_min = pdu_len + label_len + PROTOCOL_LEN + total_len_extensions;

        // if it fits into a complete package
        let min_header_len = FIXED_HEADER_LEN + PROTOCOL_LEN + label_len + total_len_extensions;
        let buffer_len = buffer.len();

        let pdu_len_encapsulated: usize;
        let pkt_type: PktType;
        let gse_len: u16;

        // if all the data and metadata will fit in the buffer, and
        // if the protocol can handle the size of the packer
        if (buffer_len >= min_header_len + pdu_len) && (GSE_LEN_MAX >= gse_len_min) {
            // complet packet
            pkt_type = PktType::CompletePkt;
            pdu_len_encapsulated = pdu_len;
            gse_len = gse_len_min as u16;
        } else {
            // first packet
            let min_header_len =
                min_header_len + FRAG_ID_LEN + TOTAL_LENGTH_LEN + total_len_extensions;

            // check the buffer size
            // if it cannot write at least more than the header
            if buffer_len < min_header_len {
                self.last_label = saved_last_label;
                self.re_current_consecutive = saved_current_consecutive;
                return Err(EncapError::ErrorSizeBuffer);
            }

            // check the metadata len
            // if the protocol cannot handle such large amounts of data
            if TOTAL_LEN_MAX < pdu_len + PROTOCOL_LEN + label_len {
                self.last_label = saved_last_label;
                self.re_current_consecutive = saved_current_consecutive;
                return Err(EncapError::ErrorPduLength);
            }

            // check the header len
            // if the header and its extensions cannot fit in the 12 bits GSE length
            let frag_header_len =
                FRAG_ID_LEN + TOTAL_LENGTH_LEN + PROTOCOL_LEN + label_len + total_len_extensions;
            if GSE_LEN_MAX < frag_header_len {
                self.last_label = saved_last_label;
                self.re_current_consecutive = saved_current_consecutive;
                return Err(EncapError::ErrorSizeBuffer);
            }

            pkt_type = PktType::FirstFragPkt;
            // the fragment is limited by the buffer and by the 12 bits GSE length
            let pdu_len_max = GSE_LEN_MAX - frag_header_len;
            pdu_len_encapsulated = if buffer_len - min_header_len < pdu_len_max {
                buffer_len - min_header_len
            } else {
                pdu_len_max
            };
            gse_len = (FRAG_ID_LEN
                + TOTAL_LENGTH_LEN
                + PROTOCOL_LEN
                + label_len
                + pdu_len_encapsulated
                + total_len_extensions) as u16;
        }
        // write gse fixed header
        let header = generate_gse_header(&pkt_type, &label.get_type(), gse_len);
        let mut offset = FIXED_HEADER_LEN;
        buffer[..offset].copy_from_slice(&header.to_be_bytes());

        let encap_status = match pkt_type {
            PktType::FirstFragPkt => {
                // write fragId
                buffer[offset..offset + FRAG_ID_LEN].copy_from_slice(&frag_id.to_be_bytes());
                offset += FRAG_ID_LEN;

                // write total_length
                let total_len = (pdu_len + PROTOCOL_LEN + label_len) as u16;
                buffer[offset..offset + TOTAL_LENGTH_LEN].copy_from_slice(&total_len.to_be_bytes());
                offset += TOTAL_LENGTH_LEN;

                // define context frag
                let context_frag = ContextFrag {
                    frag_id,
                    crc: self.crc_calculator.calculate_crc32(
                        &pdu[..pdu_len],
                        protocol_type,
                        total_len,
                        label.get_bytes(),
                    ),
                    len_pdu_frag: pdu_len_encapsulated as u16,
                };

                // define encap status
                let pkt_len =
                    FIRST_FRAG_LEN + label_len + total_len_extensions + pdu_len_encapsulated;
                EncapStatus::FragmentedPkt(pkt_len as u16, context_frag)
            }
            _ => EncapStatus::CompletedPkt(gse_len + FIXED_HEADER_LEN as u16),
        };

        // write protocol type

        // write first header extension id instead of protocol type
        buffer[offset..offset + PROTOCOL_LEN].copy_from_slice(&extensions[0].id().to_be_bytes());
        offset += PROTOCOL_LEN;

        // write label
        buffer[offset..offset + label_len].copy_from_slice(label.get_bytes());
        offset += label_len;

        for i in 0..extensions.len() - 1 {
            match &extensions[i].data() {
                //refactor?
                ExtensionData::Data2(inner) => {
                    buffer[offset..offset + inner.len()].copy_from_slice(inner);
                    offset += inner.len();
                }
                ExtensionData::Data4(inner) => {
                    buffer[offset..offset + inner.len()].copy_from_slice(inner);
                    offset += inner.len();
                }
                ExtensionData::Data6(inner) => {
                    buffer[offset..offset + inner.len()].copy_from_slice(inner);
                    offset += inner.len();
                }
                ExtensionData::Data8(inner) => {
                    buffer[offset..offset + inner.len()].copy_from_slice(inner);
                    offset += inner.len();
                }
                ExtensionData::NoData => (),

                ExtensionData::MandatoryData(inner) => {
                    buffer[offset..offset + inner.len()].copy_from_slice(inner);
                    offset += inner.len();
                }
            }

            buffer[offset..offset + PROTOCOL_LEN]
                .copy_from_slice(&extensions[i + 1].id().to_be_bytes());
            offset += PROTOCOL_LEN;
        }

        // writting last extension data
        match &extensions.last().unwrap().data() {
            //refactor?
            ExtensionData::Data2(inner) => {
                buffer[offset..offset + inner.len()].copy_from_slice(inner);
                offset += inner.len();
            }
            ExtensionData::Data4(inner) => {
                buffer[offset..offset + inner.len()].copy_from_slice(inner);
                offset += inner.len();
            }
            ExtensionData::Data6(inner) => {
                buffer[offset..offset + inner.len()].copy_from_slice(inner);
                offset += inner.len();
            }
            ExtensionData::Data8(inner) => {
                buffer[offset..offset + inner.len()].copy_from_slice(inner);
                offset += inner.len();
            }
            ExtensionData::NoData => (),
            ExtensionData::MandatoryData(inner) => {
                buffer[offset..offset + inner.len()].copy_from_slice(inner);
                offset += inner.len();
            }
        }

        if !is_there_final_mandatory_extension {
            buffer[offset..offset + PROTOCOL_LEN].copy_from_slice(&protocol_type.to_be_bytes());
            offset += PROTOCOL_LEN;
        }
        // write pdu
        buffer[offset..offset + pdu_len_encapsulated].copy_from_slice(&pdu[..pdu_len_encapsulated]);
        // return status
        Ok(encap_status)
    }
}

#[derive(PartialEq, Eq, Debug, Clone, Copy)]
pub struct EncapPreview {
    pkt_type: PktType,
    pdu_len: usize,
    pkt_len: u16,
}

impl EncapPreview {
    pub fn pkt_type(&self) -> PktType {
        self.pkt_type
    }
    pub fn pdu_len(&self) -> usize {
        self.pdu_len
    }
    pub fn pkt_len(&self) -> u16 {
        self.pkt_len
    }
}
/// Preview the encapsulation of the input data and metadata into a GSE packet.
///
/// Given a Protocol Data Unit (PDU), label, protocol type, and a buffer,
/// this function calculates the packet type and length for encapsulation.
///
/// # Arguments
///
/// * `pdu` - The Protocol Data Unit to be encapsulated.
/// * `metadata` - Metadata including the label and protocol type.
/// * `buffer` - Buffer for packet construction.
///
/// # Returns
///
/// Returns a preview of the encapsulated packet or an encapsulation error.
pub fn encap_preview(
    pdu: &[u8],
    metadata: EncapMetadata,
    buffer: &[u8],
) -> Result<EncapPreview, EncapError> {
    let label = metadata.label;
    let protocol_type = metadata.protocol_type;

    let label_len = label.len();
    let pdu_len = pdu.len();
    let gse_len_min = pdu_len + label_len + PROTOCOL_LEN;

    // check label
    if label == Label::SixBytesLabel([0, 0, 0, 0, 0, 0]) {
        return Err(EncapError::ErrorInvalidLabel);
    }

    // check protocol_type is valid, i.e. not in range [256, 1535], as encap does
    if (MAX_MANDATORY_VAL_PTYPE..SECOND_RANGE_PTYPE).contains(&protocol_type) {
        return Err(EncapError::ErrorProtocolType);
    }

    // if it fits into a complete package
    let min_header_len = FIXED_HEADER_LEN + PROTOCOL_LEN + label_len;
    let buffer_len = buffer.len();

    let pdu_len_encapsulated: usize;
    let pkt_type: PktType;
    let gse_len: u16;
    let pkt_len: u16;

    // if all the data and metadata will fit in the buffer, and
    // if the protocol can handle the size of the packer
    if (buffer_len >= min_header_len + pdu_len) && (GSE_LEN_MAX >= gse_len_min) {
        // complet packet
        pkt_type = PktType::CompletePkt;
        gse_len = gse_len_min as u16;
        pkt_len = gse_len + FIXED_HEADER_LEN as u16;
    } else {
        // first packet
        let min_header_len = min_header_len + FRAG_ID_LEN + TOTAL_LENGTH_LEN;

        // check the buffer size
        // if it cannot write at least more than the header
        if buffer_len < min_header_len {
            return Err(EncapError::ErrorSizeBuffer);
        }

        // check the metadata len
        // if the protocol cannot handle such large amounts of data
        if TOTAL_LEN_MAX < pdu_len + PROTOCOL_LEN + label_len {
            return Err(EncapError::ErrorPduLength);
        }

        pkt_type = PktType::FirstFragPkt;
        // the fragment is limited by the buffer and by the 12 bits GSE length
        let pdu_len_max = GSE_LEN_MAX - (FRAG_ID_LEN + TOTAL_LENGTH_LEN + PROTOCOL_LEN + label_len);
        pdu_len_encapsulated = if buffer_len - min_header_len < pdu_len_max {
            buffer_len - min_header_len
        } else {
            pdu_len_max
        };
        gse_len = (FRAG_ID_LEN + TOTAL_LENGTH_LEN + PROTOCOL_LEN + label_len + pdu_len_encapsulated)
            as u16;
        pkt_len = gse_len + (FIXED_HEADER_LEN) as u16;
    }

    Ok(EncapPreview {
        pkt_type,
        pdu_len,
        pkt_len,
    })
}

/// Preview of GSE encapsulation for a PDU fragment.
///
/// This function generates a preview of encapsulating a fragment of a Protocol Data Unit (PDU)
/// along with context information into a buffer, forming a GSE packet. If the fragment fits
/// into the buffer, the function returns a preview indicating the encapsulated packet details.
/// If encapsulation is not possible due to buffer size limitations, it returns an encapsulation error.
///
/// # Arguments
///
/// * `pdu` - The Protocol Data Unit fragment for encapsulation preview.
/// * `context` - Context information for the fragment encapsulation.
/// * `buffer` - Buffer for packet construction.
///
/// # Returns
///
/// Returns a preview of encapsulated packet details or an encapsulation error.
pub fn encap_frag_preview(
    pdu: &[u8],
    context: &ContextFrag,
    buffer: &[u8],
) -> Result<EncapPreview, EncapError> {
    let len_pdu_frag = context.len_pdu_frag as usize;
    let buffer_len = buffer.len();
    let pdu_len = pdu.len();

    // Metadata error
    if len_pdu_frag > pdu_len {
        return Err(EncapError::ErrorPduLength);
    }
    let pdu_len_remaining = pdu_len - len_pdu_frag;

    let gse_end_len = FRAG_ID_LEN + pdu_len_remaining + CRC_LEN;

    let pdu_len_encapsulated: usize;
    let pkt_type: PktType;
    let pkt_len: u16;
    // End packet
    // if the rest of packet fits in the buffer
    // and in the 12 bits GSE length
    if buffer_len >= gse_end_len + FIXED_HEADER_LEN && gse_end_len <= GSE_LEN_MAX {
        pdu_len_encapsulated = pdu_len_remaining;

        let mut buffer_offset = FIXED_HEADER_LEN + FRAG_ID_LEN + pdu_len_encapsulated;
        buffer_offset += CRC_LEN;

        pkt_type = PktType::EndFragPkt;
        pkt_len = buffer_offset as u16;
    }
    // if a fragment of the rest fits in the buffer
    // (when only the crc remains, an intermediate packet would carry nothing)
    else if buffer_len > FIXED_HEADER_LEN + FRAG_ID_LEN && pdu_len_remaining > 0 {
        let gse_len: usize;

        // the fragment is limited by the buffer and by the 12 bits GSE length
        let pdu_len_available = if buffer_len - (FIXED_HEADER_LEN + FRAG_ID_LEN) < GSE_LEN_MAX - FRAG_ID_LEN {
            buffer_len - (FIXED_HEADER_LEN + FRAG_ID_LEN)
        } else {
            GSE_LEN_MAX - FRAG_ID_LEN
        };

        if pdu_len_available > pdu_len_remaining {
            gse_len = FRAG_ID_LEN + pdu_len_remaining;
            pdu_len_encapsulated = pdu_len_remaining;
        } else {
            gse_len = FRAG_ID_LEN + pdu_len_available;
            pdu_len_encapsulated = pdu_len_available;
        }

        let buffer_offset = FIXED_HEADER_LEN + gse_len;
        pkt_type = PktType::IntermediateFragPkt;
        pkt_len = buffer_offset as u16;
    }
    // not enough room
    else {
        return Err(EncapError::ErrorSizeBuffer);
    }

    Ok(EncapPreview {
        pkt_type,
        pdu_len: pdu_len_encapsulated,
        pkt_len,
    })
}

/// Generate 16 bits gse header
pub fn generate_gse_header(pkt_type: &PktType, label_type: &LabelType, gse_len: u16) -> u16 {
    let start_end_bits: u16 = match pkt_type {
        PktType::CompletePkt => COMPLETE_PKT,
        PktType::FirstFragPkt => FIRST_PKT,
        PktType::IntermediateFragPkt => INTERMEDIATE_PKT,
        PktType::EndFragPkt => END_PKT,
    };

    let label_type_u16: u16 = match label_type {
        LabelType::SixBytesLabel => LABEL_6_B,
        LabelType::ThreeBytesLabel => LABEL_3_B,
        LabelType::Broadcast => LABEL_BROADCAST,
        LabelType::ReUse => LABEL_REUSE,
    };

    let buffer: u16 = (start_end_bits & START_END_MASK)
        | (label_type_u16 & LABEL_TYPE_MASK)
        | (gse_len & GSE_LEN_MASK);
    buffer
}
