// Copyright 2023, Viveris Technologies
// Distributed under the terms of the MIT License

//! Module for Utils
//!
//! This module contains the functional tools for creating and parsing GSE packets.
use crate::gse_decap::read_gse_header;
use crate::gse_encap::generate_gse_header;
use crate::gse_standard::{CRC_LEN, FIXED_HEADER_LEN, FRAG_ID_LEN, PROTOCOL_LEN, TOTAL_LENGTH_LEN};
use crate::label::{Label, LabelType};
use crate::pkt_type::PktType;

#[cfg(test)]
mod tests;

pub trait Serialisable<'a> {
    // Serialise a packet in a buffer
    fn generate(&self, buffer: &mut [u8]);

    // Deserialise a packet into a structure structure
    fn parse(buffer: &'a [u8]) -> Result<Self, &'static str>
    where
        Self: Sized;
}

/// Structure of Gse Complete Packet:
#[derive(PartialEq, Eq, Debug)]
pub struct GseCompletePacket<'a> {
    gse_len: u16,
    protocol_type: u16,
    label: Label,
    pdu: &'a [u8],
}

impl<'a> GseCompletePacket<'a> {
    #[must_use] pub fn new(gse_len: u16, protocol_type: u16, label: Label, pdu: &'a [u8]) -> Self {
        Self {
            gse_len,
            protocol_type,
            label,
            pdu,
        }
    }
}

impl<'a> Serialisable<'a> for GseCompletePacket<'a> {
    fn generate(&self, buffer: &mut [u8]) {
        let mut offset = 0;

        let fixed_header: u16 =
            generate_gse_header(&PktType::CompletePkt, &self.label.get_type(), self.gse_len);
        buffer[..FIXED_HEADER_LEN].copy_from_slice(&fixed_header.to_be_bytes());
        offset += FIXED_HEADER_LEN;

        buffer[offset..offset + PROTOCOL_LEN].copy_from_slice(&self.protocol_type.to_be_bytes());
        offset += PROTOCOL_LEN;

        buffer[offset..offset + self.label.len()].copy_from_slice(self.label.get_bytes());
        offset += self.label.len();

        buffer[offset..offset + self.pdu.len()].copy_from_slice(self.pdu);
    }

    fn parse(buffer: &[u8]) -> Result<GseCompletePacket, &'static str> {
        let mut offset = 0;

        let (gse_len, pkt_type, label_type) = read_gse_header(u16::from_be_bytes(
            buffer[..FIXED_HEADER_LEN].try_into().unwrap(),
        ))
        .unwrap();
        if pkt_type != PktType::CompletePkt {
            return Err("Wrong PktType");
        }
        offset += FIXED_HEADER_LEN;

        let protocol_type =
            u16::from_be_bytes(buffer[offset..offset + PROTOCOL_LEN].try_into().unwrap());
        offset += PROTOCOL_LEN;

        let label = Label::new(&label_type, &buffer[offset..offset + label_type.len()]);
        offset += label.len();

        let pdu = &buffer[offset..gse_len + FIXED_HEADER_LEN];

        Ok(GseCompletePacket::new(
            gse_len.try_into().unwrap(),
            protocol_type,
            label,
            pdu,
        ))
    }
}

/// Structure of Gse First Fragment Packet:
#[derive(PartialEq, Eq, Debug)]
pub struct GseFirstFragPacket<'a> {
    gse_len: u16,
    frag_id: u8,
    total_length: u16,
    protocol_type: u16,
    label: Label,
    pdu: &'a [u8],
}

impl<'a> GseFirstFragPacket<'a> {
    #[must_use] pub fn new(
        gse_len: u16,
        frag_id: u8,
        total_length: u16,
        protocol_type: u16,
        label: Label,
        pdu: &'a [u8],
    ) -> Self {
        Self {
            gse_len,
            frag_id,
            total_length,
            protocol_type,
            label,
            pdu,
        }
    }
}

impl<'a> Serialisable<'a> for GseFirstFragPacket<'a> {
    fn generate(&self, buffer: &mut [u8]) {
        let mut offset = 0;

        let fixed_header: u16 =
            generate_gse_header(&PktType::FirstFragPkt, &self.label.get_type(), self.gse_len);
        buffer[..FIXED_HEADER_LEN].copy_from_slice(&fixed_header.to_be_bytes());
        offset += FIXED_HEADER_LEN;

        buffer[offset..offset + FRAG_ID_LEN].copy_from_slice(&self.frag_id.to_be_bytes());
        offset += FRAG_ID_LEN;

        buffer[offset..offset + TOTAL_LENGTH_LEN].copy_from_slice(&self.total_length.to_be_bytes());
        offset += TOTAL_LENGTH_LEN;

        buffer[offset..offset + PROTOCOL_LEN].copy_from_slice(&self.protocol_type.to_be_bytes());
        offset += PROTOCOL_LEN;

        buffer[offset..offset + self.label.len()].copy_from_slice(self.label.get_bytes());
        offset += self.label.len();

        buffer[offset..offset + self.pdu.len()].copy_from_slice(self.pdu);
    }

    fn parse(buffer: &[u8]) -> Result<GseFirstFragPacket, &'static str> {
        let mut offset = 0;

        let (gse_len, pkt_type, label_type) = read_gse_header(u16::from_be_bytes(
            buffer[..FIXED_HEADER_LEN].try_into().unwrap(),
        ))
        .unwrap();
        if pkt_type != PktType::FirstFragPkt {
            return Err("Wrong PktType");
        }
        offset += FIXED_HEADER_LEN;

        let frag_id = u8::from_be_bytes(buffer[offset..offset + FRAG_ID_LEN].try_into().unwrap());
        offset += FRAG_ID_LEN;

        let total_length = u16::from_be_bytes(
            buffer[offset..offset + TOTAL_LENGTH_LEN]
                .try_into()
                .unwrap(),
        );
        offset += TOTAL_LENGTH_LEN;

        let protocol_type =
            u16::from_be_bytes(buffer[offset..offset + PROTOCOL_LEN].try_into().unwrap());
        offset += PROTOCOL_LEN;

        let label = Label::new(&label_type, &buffer[offset..offset + label_type.len()]);
        offset += label.len();

        let pdu = &buffer[offset..gse_len + FIXED_HEADER_LEN];

        Ok(GseFirstFragPacket::new(
            gse_len.try_into().unwrap(),
            frag_id,
            total_length,
            protocol_type,
            label,
            pdu,
        ))
    }
}

/// Structure of Gse Intermediate Packet:
#[derive(PartialEq, Eq, Debug)]
pub struct GseIntermediatePacket<'a> {
    gse_len: u16,
    frag_id: u8,
    pdu: &'a [u8],
}

impl<'a> GseIntermediatePacket<'a> {
    pub fn new(gse_len: u16, frag_id: u8, pdu: &'a [u8]) -> Self {
        Self {
            gse_len,
            frag_id,
            pdu,
        }
    }
}

impl<'a> Serialisable<'a> for GseIntermediatePacket<'a> {
    fn generate(&self, buffer: &mut [u8]){
        let mut offset = 0;

        let fixed_header: u16 = generate_gse_header(
            &PktType::IntermediateFragPkt,
            &LabelType::ReUse,
            self.gse_len,
        );
        buffer[..FIXED_HEADER_LEN].copy_from_slice(&fixed_header.to_be_bytes());
        offset += FIXED_HEADER_LEN;

        buffer[offset..offset + FRAG_ID_LEN].copy_from_slice(&self.frag_id.to_be_bytes());
        offset += FRAG_ID_LEN;

        buffer[offset..offset + self.pdu.len()].copy_from_slice(self.pdu);
    }

    fn parse(buffer: &[u8]) -> Result<GseIntermediatePacket, &'static str> {
        let mut offset = 0;

        let (gse_len, pkt_type, _label_type) = read_gse_header(u16::from_be_bytes(
            buffer[..FIXED_HEADER_LEN].try_into().unwrap(),
        ))
        .unwrap();
        if pkt_type != PktType::IntermediateFragPkt {
            return Err("Wrong PktType");
        }
        offset += FIXED_HEADER_LEN;

        let frag_id = u8::from_be_bytes(buffer[offset..offset + FRAG_ID_LEN].try_into().unwrap());
        offset += FRAG_ID_LEN;

        let pdu = &buffer[offset..gse_len + FIXED_HEADER_LEN];

        Ok(GseIntermediatePacket::new(
            gse_len.try_into().unwrap(),
            frag_id,
            pdu,
        ))
    }
}

/// Structure of Gse End Frag Packet:
#[derive(PartialEq, Eq, Debug)]
pub struct GseEndFragPacket<'a> {
    gse_len: u16,
    frag_id: u8,
    pdu: &'a [u8],
    crc: u32,
}

impl<'a> GseEndFragPacket<'a> {
    pub fn new(gse_len: u16, frag_id: u8, pdu: &'a [u8], crc: u32) -> Self {
        Self {
            gse_len,
            frag_id,
            pdu,
            crc,
        }
    }
}

impl<'a> Serialisable<'a> for GseEndFragPacket<'a> {
    fn generate(&self, buffer: &mut [u8]){
        let mut offset = 0;

        let fixed_header: u16 =
            generate_gse_header(&PktType::EndFragPkt, &LabelType::ReUse, self.gse_len);
        buffer[..FIXED_HEADER_LEN].copy_from_slice(&fixed_header.to_be_bytes());
        offset += FIXED_HEADER_LEN;

        buffer[offset..offset + FRAG_ID_LEN].copy_from_slice(&self.frag_id.to_be_bytes());
        offset += FRAG_ID_LEN;

        buffer[offset..offset + self.pdu.len()].copy_from_slice(self.pdu);
        offset += self.pdu.len();

        buffer[offset..offset + CRC_LEN].copy_from_slice(&self.crc.to_be_bytes());
    }

    fn parse(buffer: &[u8]) -> Result<GseEndFragPacket, &'static str> {
        let mut offset = 0;

        let (gse_len, pkt_type, _label_type) = read_gse_header(u16::from_be_bytes(
            buffer[..FIXED_HEADER_LEN].try_into().unwrap(),
        ))
        .unwrap();
        if pkt_type != PktType::EndFragPkt {
            return Err("Wrong PktType");
        }
        offset += FIXED_HEADER_LEN;

        let frag_id = u8::from_be_bytes(buffer[offset..offset + FRAG_ID_LEN].try_into().unwrap());
        offset += FRAG_ID_LEN;

        let pdu = &buffer[offset..gse_len + FIXED_HEADER_LEN - CRC_LEN];
        offset = gse_len + FIXED_HEADER_LEN - CRC_LEN;

        let crc = u32::from_be_bytes(buffer[offset..offset + CRC_LEN].try_into().unwrap());

        Ok(GseEndFragPacket::new(
            gse_len.try_into().unwrap(),
            frag_id,
            pdu,
            crc,
        ))
    }
}
