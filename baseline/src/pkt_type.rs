// Copyright 2023, Viveris Technologies
// Distributed under the terms of the MIT License

//! Module for Packet Type
//!
//! This module contains the packet type enum
#[derive(PartialEq, Eq, Debug, Copy, Clone)]
/// enum Packet Type
///
/// Describe the packet type:
/// Complete packet: Start bit = 1, End bit = 1
/// First fragment packet: Start bit = 1, End bit = 0
/// Intermediate fragment packet: Start bit = 0, End bit = 0
/// End fragment packet: Start bit = 0, End bit = 1
#[allow(clippy::enum_variant_names)]
pub enum PktType {
    CompletePkt,
    FirstFragPkt,
    IntermediateFragPkt,
    EndFragPkt,
}
