// Copyright 2023, Viveris Technologies
// Distributed under the terms of the MIT License
//! Module for managin GSE decapsulation memory buffer
//!
//! This module enables users to define their own struct for managing how fragments are stored in memory while awaiting the reception of all fragments.
#[cfg(test)]
mod tests;

use super::super::gse_decap::DecapContext;
use std::mem;

#[derive(Debug, PartialEq, Eq, Clone)]
/// Represents errors returned by functions in the [`GseDecapMemory`] trait in case of failure.
/// 
/// This enum is used as the `Err` variant in a `Result` type.
pub enum DecapMemoryError { //TODO
    StorageOverflow(Box<[u8]>),
    StorageUnderflow,
    UndefinedId,
    BufferTooSmall(Box<[u8]>),
    MemoryCorrupted,
}

/// Represents the current state of the reconstruction process for a GSE packet from the fragments received up to the present moment.
///
/// This structure holds the following components:
/// * `DecapContext`: Contains the metadata associated with the packet, which provides essential context for the reassembly process.
/// * `Box<[u8]>`: Holds the current partial reconstruction of the packet, representing the data that has been assembled so far.
pub type MemoryContext = (DecapContext, Box<[u8]>);

/// Trait defining the function required by the decap memory struct.
pub trait GseDecapMemory {
    /// Create a new empty `DecapMemory`
    fn new(max_frag_id: usize, max_pdu_size: usize, max_delay: usize, max_pdu_frag: usize) -> Self;

    /// Provision of a storage buffer for the decap memory for writing purposes.
    /// If there is not enough place, it should return `StorageOverflow` Error.
    /// If the storage is too small, it sould return `BufferTooSmall` Error.
    fn provision_storage(&mut self, storage: Box<[u8]>) -> Result<(), DecapMemoryError>;

    /// Returns a memory buffer from memory without context,
    /// should only be used for a complete packet.
    /// If there is not storage available it should return a `StorageUnderflow` Error.
    fn new_pdu(&mut self) -> Result<Box<[u8]>, DecapMemoryError>;

    /// Take a buffer in memory and reserve it for a specific context.
    /// If there is already a frag, it should replace it and steal is storage.
    /// If there is no storage available it should return a `StorageUnderflow` Error.
    fn new_frag(&mut self, context: DecapContext) -> Result<MemoryContext, DecapMemoryError>;

    /// Take an existing context attached to a `frag_id`.
    /// This function is used to continue the defragmentation.
    /// If the `frag_id` isn't stored, it should return a `UndefinedId`.
    fn take_frag(&mut self, frag_id: u8) -> Result<MemoryContext, DecapMemoryError>;

    /// Save an existing context.
    /// Should be called after `take_context` or `new_context` to save the current state.
    /// If there is already a fragment saved it should return an `MemoryCorrupted` Error.
    fn save_frag(&mut self, context: MemoryContext) -> Result<(), DecapMemoryError>;
}

#[derive(Debug, PartialEq, Eq, Clone)]
/// Naive and simple implementation of the trait [`GseDecapMemory`]
/// ### Limitations:
/// *   The maximum number of buffer is fixed at the initialisation
/// *   The index of the frag ids are calculted with `frag_id % max_frag_id`
pub struct SimpleGseMemory {
    storages: Vec<Box<[u8]>>,
    frags: Box<[Option<MemoryContext>]>,

    max_frag_id: usize,
    max_pdu_size: usize,
    // TODO:
    //max_pdu_frag: usize,
    //max_delay: usize,
}

impl SimpleGseMemory {
    const MIN_MARGIN: usize = 2;
}

impl GseDecapMemory for SimpleGseMemory {
    fn new(
        max_frag_id: usize,
        max_pdu_size: usize,
        _max_delay: usize,
        _max_pdu_frag: usize,
    ) -> Self {
        let storages = Vec::with_capacity(max_frag_id + Self::MIN_MARGIN);
        let frags = vec![None; max_frag_id].into_boxed_slice();
        Self {
            storages,
            frags,
            max_frag_id,
            max_pdu_size,
        }
    }

    fn provision_storage(&mut self, storage: Box<[u8]>) -> Result<(), DecapMemoryError> {
        if self.storages.capacity() == self.storages.len() {
            return Err(DecapMemoryError::StorageOverflow(storage));
        }

        if storage.len() < self.max_pdu_size {
            return Err(DecapMemoryError::BufferTooSmall(storage));
        }

        self.storages.push(storage);
        Ok(())
    }

    fn new_pdu(&mut self) -> Result<Box<[u8]>, DecapMemoryError> {
        match self.storages.pop() {
            None => Err(DecapMemoryError::StorageUnderflow),
            Some(storage) => Ok(storage),
        }
    }

    fn new_frag(&mut self, context: DecapContext) -> Result<MemoryContext, DecapMemoryError> {
        let frag_id = context.frag_id;
        // a memory without any slot cannot hold a fragmented pdu
        if self.max_frag_id == 0 {
            return Err(DecapMemoryError::StorageUnderflow);
        }
        let idx = frag_id as usize % self.max_frag_id;

        let mut frag: Option<MemoryContext> = None;
        mem::swap(&mut self.frags[idx], &mut frag);

        match frag {
            None => match self.new_pdu() {
                Ok(pdu) => Ok((context, pdu)),
                Err(err) => Err(err),
            },
            Some((_, pdu)) => Ok((context, pdu)),
        }
    }

    fn take_frag(&mut self, frag_id: u8) -> Result<MemoryContext, DecapMemoryError> {
        // a memory without any slot does not hold any frag id
        if self.max_frag_id == 0 {
            return Err(DecapMemoryError::UndefinedId);
        }
        let idx = frag_id as usize % self.max_frag_id;

        let mut frag: Option<MemoryContext> = None;
        mem::swap(&mut self.frags[idx], &mut frag);

        match frag {
            None => Err(DecapMemoryError::UndefinedId),
            Some((context, pdu)) => {
                if context.frag_id == frag_id {
                    Ok((context, pdu))
                } else {
                    // the slot belongs to another frag id: leave it untouched
                    self.frags[idx] = Some((context, pdu));
                    Err(DecapMemoryError::UndefinedId)
                }
            }
        }
    }

    fn save_frag(&mut self, context: MemoryContext) -> Result<(), DecapMemoryError> {
        let (decap_context, pdu) = context;
        // a memory without any slot cannot save a context
        if self.max_frag_id == 0 {
            return Err(DecapMemoryError::MemoryCorrupted);
        }
        let idx = decap_context.frag_id as usize % self.max_frag_id;

        match self.frags[idx] {
            None => {
                self.frags[idx] = Some((decap_context, pdu));
                Ok(())
            }
            Some(_) => Err(DecapMemoryError::MemoryCorrupted),
        }
    }
}
