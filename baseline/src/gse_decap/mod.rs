// Copyright 2023, Viveris Technologies
// Distributed under the terms of the MIT License

//! Module for GSE decapsulation
//!
//! The decapsulation module follows the dvb gse standard.
//! It supports complete packet, first fragment packet, intermediate fragment packet, end fragment packet and padding.
//! It also allows you to manage any type of label including the re-use label.

pub use self::gse_decap_memory::{DecapMemoryError, GseDecapMemory, SimpleGseMemory};
use crate::crc::CrcCalculator;
use crate::gse_standard::{
    COMPLETE_PKT, CRC_LEN, END_PKT, FIRST_PKT, FIXED_HEADER_LEN, FRAG_ID_LEN, GSE_LEN_MASK,
    H_LEN_MASK, INTERMEDIATE_PKT, LABEL_3_B, LABEL_3_B_LEN, LABEL_6_B, LABEL_6_B_LEN,
    LABEL_BROADCAST, LABEL_REUSE, LABEL_TYPE_MASK, PROTOCOL_LEN, SECOND_RANGE_PTYPE,
    START_END_MASK, TOTAL_LENGTH_LEN,
};
use crate::header_extension::{
    optionnal_extension_data_size_from_hlen, Extension, MandatoryHeaderExt,
    MandatoryHeaderExtensionManager,
};
use crate::label::{Label, LabelType};
use crate::pkt_type::PktType;

pub mod gse_decap_memory;
#[cfg(test)]
mod tests;

#[derive(Debug, PartialEq, Eq, Clone)]
/// Store the Metadata read from GSE packet
///
/// *   Pdu length describe the length of the pdu store in a buffer
/// *   Protocol type describe the protocol of that pdu
/// *   Label describe the recipient of that pdu
pub struct DecapMetadata {
    pdu_len: usize,
    protocol_type: u16,
    label: Label,
    extensions: Vec<Extension>,
}

impl DecapMetadata {
    pub fn new(
        pdu_len: usize,
        protocol_type: u16,
        label: Label,
        extensions: Vec<Extension>,
    ) -> Self {
        Self {
            pdu_len,
            protocol_type,
            label,
            extensions,
        }
    }

    pub fn pdu_len(&self) -> usize {
        self.pdu_len
    }
    pub fn protocol_type(&self) -> u16 {
        self.protocol_type
    }
    pub fn label(&self) -> Label {
        self.label
    }
    pub fn extensions(&self) -> &Vec<Extension> {
        &self.extensions
    }
}

#[derive(Debug, PartialEq, Eq, Clone)]
/// Define the status of the decapsulation.
/// TODO developp variant
/// If a pdu is completely decapsulated, the status return a by payload the option completed packet.
/// Else, if the decapsulation failed, the status return a comment about the error that occured.
pub enum DecapStatus {
    CompletedPkt(Box<[u8]>, DecapMetadata),
    FragmentedPkt(DecapMetadata),
    Padding,
}

impl DecapStatus {
    pub fn to_str(&self) -> &'static str {
        match self {
            Self::CompletedPkt(_, _) => "Fully decapsulated packet",
            Self::FragmentedPkt(_) => "Partially decapsulated packet",
            Self::Padding => "Padding detected",
        }
    }
}

#[derive(PartialEq, Eq, Clone, Debug)]
/// Errors returned by [`Decapsulator::decap`] function when it fails.
///
/// This enum is used as the `Err` variant in a `Result` type.

pub enum DecapError {
    /// Indicates that the output buffer is too small to accommodate the decapsulated packet.
    ErrorSizeBuffer,

    /// Indicates that the Total Length field read from from first fragment doesn't correspond to the length of all the reconstitued packet.
    ErrorTotalLength,

    /// Indicates that the input buffer length (containing the packet to decapsulate) is too small comparing to GSE LEN field read from packet.
    ErrorGseLength,

    /// Indicates that the input buffer length (containing the packet to decapsulate) is too small comparing to what is expected.
    ErrorSizePduBuffer,

    /// Indicates that the protocol type read is invalid.
    ErrorProtocolType,

    /// Indicates that something went wrong with the decapsulator memory. Refers to [`DecapMemoryError`] for more informations.
    ErrorMemory(DecapMemoryError),

    /// Indicates that CRC computed doesn't correspond to the CRC field.
    ErrorCrc,

    /// Indicates that the label read is a Six-Byte Label `{0, 0, 0, 0, 0, 0}`, which should only be used for padding purposes but Start and End bits are not 0.
    ErrorInvalidLabel,

    /// Indicates that the label read is a Reuse Label but no label has been used in the same `BBFrame`.
    ErrorNoLabelSaved,

    /// Indicates that the label read is a Reuse Label but a broadcast label has been saved.
    ErrorLabelBroadcastSaved,

    /// Indicates that the label read is a Reuse Label but a Reuse label has been saved.
    ErrorLabelReUseSaved,

    /// Indicates that a unknown mandatory extension has been read, so the packet should be dropped.
    ErrorUnkownMandatoryHeader,
}

impl DecapError {
    pub fn to_str(&self) -> &'static str {
        match self {
            Self::ErrorSizeBuffer => "Buffer is too small",
            Self::ErrorSizePduBuffer => "Pdu buffer is smaller than pdu received",
            Self::ErrorProtocolType => "Extension header are not implemented",
            Self::ErrorMemory(_) => "Internal Memory Error",
            Self::ErrorCrc => "Crc Error",
            Self::ErrorInvalidLabel => "Label 6B [0, 0, 0, 0, 0, 0] shall not be used",
            Self::ErrorNoLabelSaved => {
                "A Reused label is used, but no label has been used in the same bbframe"
            }
            Self::ErrorLabelBroadcastSaved => {
                "A Reused label is used, but the last label received is a label broadcast"
            }
            Self::ErrorLabelReUseSaved => {
                "A Reused label is used, but the last label saved is a label re use"
            }
            Self::ErrorUnkownMandatoryHeader => {
                "Header contains an unknow Mandatory Header. Can not proceed the packet"
            }
            Self::ErrorTotalLength => {
                "Total length in header doesn't correspond to the total length of the defragmented packet"
            }
            Self::ErrorGseLength => "Pdu buffer is smaller than pdu received",
        }
    }
}

#[derive(Debug, PartialEq, Eq, Clone)]
/// Represents the information needed to continue decapsulation :
/// *   This structure is initialised after the decapsulation of a start fragment and maintained until the end fragment.
/// *   Label, protocol type, total len are read in the first fragment
/// *   Frag id is used to identify the context.
/// *   Pdu len represents the length of the PDU already received, it's updated with each new fragment received
pub struct DecapContext {
    pub label: Label,
    pub protocol_type: u16,
    pub frag_id: u8,
    pub total_len: u16,
    pub pdu_len: u16,
    pub from_label_reuse: bool,
    pub extensions_header: Vec<Extension>,
}

impl DecapContext {
    pub fn new(
        label: Label,
        protocol_type: u16,
        frag_id: u8,
        total_len: u16,
        pdu_len: u16,
        from_label_reuse: bool,
        extensions_header: Vec<Extension>,
    ) -> Self {
        Self {
            label,
            protocol_type,
            frag_id,
            total_len,
            pdu_len,
            from_label_reuse,
            extensions_header,
        }
    }
}

/// Object oriented structure Decapsulator to decapsulate GSE packet.
///
/// This structure contains the gse memory and his trait, saves the trait of crc calculation and allows an autonomous use of the Re Use Label.
/// TODO add header ext infoT
/// The memory has to implement the trait `GseDecapMemory`. It is required to use the decap function.
///
/// The last label has to be reset by the user at the begining of each new base band frame
pub struct Decapsulator<T: GseDecapMemory, C: CrcCalculator, MHEM: MandatoryHeaderExtensionManager>
{
    pub memory: T,
    crc_calculator: C,
    last_label: Option<Label>,
    mandatory_extension_manager: MHEM,
}

impl<T: GseDecapMemory, C: CrcCalculator, MHEM: MandatoryHeaderExtensionManager>
    Decapsulator<T, C, MHEM>
{
    pub fn new(
        memory: T,
        crc_calculator: C,
        mandatory_extension_manager: MHEM,
    ) -> Decapsulator<T, C, MHEM> {
        let decapsulator: Decapsulator<T, C, MHEM> = Decapsulator {
            last_label: None,
            memory,
            crc_calculator,
            mandatory_extension_manager,
        };
        decapsulator
    }

    pub fn new_pdu(&mut self) -> Result<Box<[u8]>, DecapMemoryError> {
        self.memory.new_pdu()
    }

    pub fn provision_storage(&mut self, storage: Box<[u8]>) -> Result<(), DecapMemoryError> {
        self.memory.provision_storage(storage)
    }

    /// Set the last label at None, it has to be done at the begining of each new base band frame
    pub fn reset_last_label(&mut self) {
        self.last_label = None;
    }

    /// GSE decapsulation of the payload from a buffer
    ///
    /// The function decap reads the buffer to extract a packet.
    /// Nominal cases:
    /// *  if the packet is complete, a memory buffer is taken in the `GseDecapMemory` and written to the pdu
    ///    and this buffer is returned as a field of `CompletedPkt` status.
    /// *  if the packet is a start packet, a memory buffer is taken in `GseDecapMemory` and the fragment of the
    ///    of the pdu and the context is stored in `GseDecapMemory`.
    /// *  if the packet is an intermediate packet, the context in `GseDecapMemory` is read and
    ///    and updated.
    /// *  if the packet is an end packet, the context in the `GseDecapMemory` is taken, updated and
    ///    and returned as a file with the status `CompletedPkt`.
    /// *  if the buffer contains 0, Padding status is returned.
    ///    in each case, it returns the offset of the buffer to apply.
    ///    Error cases:
    /// *  if the inputs are wrong, the function returns an error via the status
    ///
    /// # Example of decapsulating a gse packet
    ///
    /// ```
    /// use dvb_gse_rust::gse_decap::{Decapsulator, DecapMetadata, DecapStatus, SimpleGseMemory, GseDecapMemory};
    /// use dvb_gse_rust::label::Label;
    /// use dvb_gse_rust::crc::DefaultCrc;
    /// use dvb_gse_rust::header_extension::SimpleMandatoryExtensionHeaderManager;
    /// // The packet is written in buffer, the length of the packet is inform inside
    /// let mut buffer = [0; 1000];
    ///
    /// // For the example, we build the packet by hand
    /// let protocol_type: u16= 0xFFFF;
    /// let pdu = *b"abcdefghijklmnopqrstuvwxyz";
    /// buffer[0] = 0xE0; // Complete packet, label brodcast
    /// buffer[1] = 28; // Length of the rest of the packet
    /// buffer[2..4].copy_from_slice(&protocol_type.to_be_bytes()); // Protocol Type
    /// buffer[4..30].copy_from_slice(&pdu);  // Payload
    ///
    /// // The pdu decapsulated from the buffer has to be written in a buffer from memory
    /// let size_memory = 1;
    /// let pdu_len = 26;
    /// let mut memory = SimpleGseMemory::new(size_memory, pdu_len, 0, 0);
    /// let storage = vec![0; pdu_len].into_boxed_slice();
    /// memory.provision_storage(storage).unwrap();
    ///
    /// // Creation of the decapsulator with his crc calculation trait and his memory
    /// let mut decapsulator = Decapsulator::new(memory, DefaultCrc {}, SimpleMandatoryExtensionHeaderManager {});
    ///
    /// // Next, the gse packet can be decapsulated
    /// let (decap_status, pkt_len) = match decapsulator.decap(&buffer) { Ok((decap_status, pkt_len)) => (decap_status, pkt_len), Err(_) => unreachable!() };
    ///
    /// // Finally, the pdu and the metadata received can be compared with those sent
    /// let exp_decap_status = DecapStatus::CompletedPkt(
    ///    Box::new(*b"abcdefghijklmnopqrstuvwxyz"),
    ///    DecapMetadata::new(
    ///     26,
    ///     0xFFFF,

    ///      Label::Broadcast,
    ///     vec![],
    ///    ),
    /// );
    /// let exp_pkt_len = 30;
    ///
    /// assert_eq!(decap_status, exp_decap_status);
    /// assert_eq!(pkt_len, exp_pkt_len);
    /// ```
    pub fn decap(&mut self, buffer: &[u8]) -> Result<(DecapStatus, usize), (DecapError, usize)> {
        let buffer_len = buffer.len();

        //Check if buffer is not too small (should have a len of 3 at least to contains header)
        if buffer_len < FIXED_HEADER_LEN {
            self.last_label = None;
            return Err((DecapError::ErrorSizeBuffer, buffer_len));
        }

        // read gse header
        let (gse_len, pkt_type, label_type) = if let Some(header) = read_gse_header(
            u16::from_be_bytes(buffer[..FIXED_HEADER_LEN].try_into().unwrap()),
        ) {
            header
        } else {
            self.last_label = None;
            return Ok((DecapStatus::Padding, buffer_len));
        };

        let pkt_len = gse_len + FIXED_HEADER_LEN;

        // check buffer size
        if buffer_len < pkt_len {
            self.last_label = None;
            // len_pkt = buffer_len because the buffer is too small to contain another packet
            return Err((DecapError::ErrorSizeBuffer, buffer_len));
        }

        match pkt_type {
            PktType::CompletePkt => self.decap_complete(buffer, label_type, pkt_len, gse_len),
            PktType::FirstFragPkt => self.decap_first(buffer, label_type, pkt_len, gse_len),
            PktType::IntermediateFragPkt => self.decap_intermediate(buffer, pkt_len, gse_len),
            PktType::EndFragPkt => self.decap_end(buffer, pkt_len, gse_len),
        }
    }

    #[inline(always)]
    fn decap_complete(
        &mut self,
        buffer: &[u8],
        label_type: LabelType,
        pkt_len: usize,
        gse_len: usize,
    ) -> Result<(DecapStatus, usize), (DecapError, usize)> {
        let mut offset = FIXED_HEADER_LEN;
        let buffer_len: usize = buffer.len();
        let label_len = label_type.len();
        let mut extensions: Vec<Extension> = vec![];
        let mut is_there_header_ext = false;

        let mut header_ext_len: usize = 0;

        // check the gse length before reading the fields it must contain
        if gse_len < label_len + PROTOCOL_LEN {
            self.last_label = None;
            // len_pkt = buffer_len because the label type or the gse length is wrong so the start of the next packet is undefined
            // the entire buffer can not be proceed and should be dropped
            return Err((DecapError::ErrorGseLength, buffer_len));
        }

        // read protocol_type
        let mut protocol_type =
            u16::from_be_bytes(buffer[offset..offset + PROTOCOL_LEN].try_into().unwrap());
        offset += PROTOCOL_LEN;
        if protocol_type < SECOND_RANGE_PTYPE {
            // there is atleast one header extension
            // current protocol type is in fact first header extension id
            // iterate over all header extensions
            is_there_header_ext = true;
        }

        // read label
        let label: Label = Label::new(&label_type, &buffer[offset..offset + label_len]);
        offset += label_len;

        // check label
        if label == Label::SixBytesLabel([0, 0, 0, 0, 0, 0]) {
            self.last_label = None;
            return Err((DecapError::ErrorInvalidLabel, pkt_len));
        }

        if is_there_header_ext {
            match iterate_over_extension_header(
                &buffer[offset..pkt_len],
                &self.mandatory_extension_manager,
                protocol_type,
            ) {
                Err(e) => match e {
                    ExtensionHeaderError::BufferTooSmall => {
                        self.last_label = None;
                        return Err((DecapError::ErrorSizePduBuffer, buffer_len));
                    }
                    ExtensionHeaderError::UnknownMandatoryHeader => {
                        self.last_label = None;
                        return Err((DecapError::ErrorUnkownMandatoryHeader, pkt_len));
                    }
                },
                Ok(r) => {
                    offset += r.header_ext_len;
                    protocol_type = r.protocol_type;
                    header_ext_len = r.header_ext_len;
                    extensions = r.extensions;
                }
            };
        };
        // get pdu buffer
        let mut pdu_buffer = match self.memory.new_pdu() {
            Ok(pdu) => pdu,
            Err(err) => {
                self.last_label = None;
                return Err((DecapError::ErrorMemory(err), pkt_len));
            }
        };

        // check pdu buffer size
        let pdu_buffer_len = pdu_buffer.len();

        // check buffer size
        if pdu_buffer_len + label_len + header_ext_len + PROTOCOL_LEN < gse_len {
            self.last_label = None;
            self.memory.provision_storage(pdu_buffer).unwrap();
            return Err((DecapError::ErrorSizePduBuffer, pkt_len));
        }
        let calculed_pdu_len = gse_len - label_len - header_ext_len - PROTOCOL_LEN;

        // read pdu
        pdu_buffer[..calculed_pdu_len].copy_from_slice(&buffer[offset..offset + calculed_pdu_len]);

        // update last label
        let current_label = match label_type {
            // read last_label
            LabelType::ReUse => match self.last_label {
                Some(Label::Broadcast) => {
                    self.last_label = None;
                    self.memory.provision_storage(pdu_buffer).unwrap();
                    return Err((DecapError::ErrorLabelBroadcastSaved, pkt_len));
                }
                Some(Label::ReUse) => {
                    self.last_label = None;
                    self.memory.provision_storage(pdu_buffer).unwrap();
                    return Err((DecapError::ErrorLabelReUseSaved, pkt_len));
                }
                None => {
                    self.last_label = None;
                    self.memory.provision_storage(pdu_buffer).unwrap();
                    return Err((DecapError::ErrorNoLabelSaved, pkt_len));
                }
                _ => self.last_label.unwrap(),
            },
            // label broadcast
            LabelType::Broadcast => {
                self.last_label = None;
                Label::Broadcast
            }
            _ => {
                // save label
                self.last_label = Some(label);
                label
            }
        };

        // return status and pkt_length
        let metadata = DecapMetadata {
            pdu_len: calculed_pdu_len,
            label: current_label,
            protocol_type,
            extensions,
        };
        Ok((DecapStatus::CompletedPkt(pdu_buffer, metadata), pkt_len))
    }

    pub fn get_label_or_frag_id(
        &self,
        buffer: &[u8],
    ) -> Result<LabelorFragId, GetLabelorFragIdError> {
        if buffer.len() < FIXED_HEADER_LEN {
            return Err(GetLabelorFragIdError::ErrSizeBuffer);
        }

        let result = read_gse_header(u16::from_be_bytes([buffer[0], buffer[1]]));
        let Some(header) = result else {
            return Err(GetLabelorFragIdError::ErrHeaderRead);
        };
        // intermediate or last fragment -> no header extension
        if (header.1 == PktType::IntermediateFragPkt) || (header.1 == PktType::EndFragPkt) {
            // return fragid
            if buffer.len() < FIXED_HEADER_LEN + PROTOCOL_LEN + header.2.len() {
                return Err(GetLabelorFragIdError::ErrSizeBuffer);
            }

            return Ok(LabelorFragId::FragId(u8::from_be(buffer[FIXED_HEADER_LEN])));
        }
        if header.2 == LabelType::Broadcast {
            return Ok(LabelorFragId::Lbl(Label::Broadcast));
        }

        // first fragment or complete packet but no data for label
        if header.2 == LabelType::ReUse {
            return Err(GetLabelorFragIdError::ErrLabelReuse);
        }

        // handle potential header extension if first frag or complete pck
        let mut offset: usize = FIXED_HEADER_LEN;

        if header.1 == PktType::FirstFragPkt {
            // return fragid
            offset += TOTAL_LENGTH_LEN + FRAG_ID_LEN;
        }
        offset += PROTOCOL_LEN;
        if buffer.len() < offset + header.2.len() {
            return Err(GetLabelorFragIdError::ErrSizeBuffer);
        } // packet can not contain the promised header

        if (header.1 == PktType::IntermediateFragPkt) || (header.1 == PktType::EndFragPkt) {
            // return fragid
            if buffer.len() < FIXED_HEADER_LEN + PROTOCOL_LEN + header.2.len() {
                return Err(GetLabelorFragIdError::ErrSizeBuffer);
            }

            return Ok(LabelorFragId::Lbl(Label::new(
                &header.2,
                &buffer[FIXED_HEADER_LEN + PROTOCOL_LEN
                    ..FIXED_HEADER_LEN + PROTOCOL_LEN + header.2.len()],
            )));
        }
        match header.2 {
            LabelType::ThreeBytesLabel => Ok(LabelorFragId::Lbl(Label::new(
                &LabelType::ThreeBytesLabel,
                &buffer[offset..offset + LABEL_3_B_LEN],
            ))),
            LabelType::SixBytesLabel => Ok(LabelorFragId::Lbl(Label::new(
                &LabelType::SixBytesLabel,
                &buffer[offset..offset + LABEL_6_B_LEN],
            ))),
            _ => unreachable!(),
        }
    }

    #[inline(always)]
    fn decap_first(
        &mut self,
        buffer: &[u8],
        label_type: LabelType,
        pkt_len: usize,
        gse_len: usize,
    ) -> Result<(DecapStatus, usize), (DecapError, usize)> {
        let mut header_ext_len: usize = 0;
        let mut offset = FIXED_HEADER_LEN;
        let buffer_len = buffer.len();
        let label_len = label_type.len();
        let mut extensions: Vec<Extension> = vec![];
        let mut is_there_extension_header = false;

        // check the gse length before reading the fields it must contain
        if gse_len < label_len + PROTOCOL_LEN + FRAG_ID_LEN + TOTAL_LENGTH_LEN {
            // len_pkt = buffer_len because the label type or the gse length is wrong so the start of the next packet is undefined
            self.last_label = None;
            return Err((DecapError::ErrorGseLength, buffer_len));
        }

        // read frag id
        let frag_id = u8::from_be_bytes(buffer[offset..offset + FRAG_ID_LEN].try_into().unwrap());
        offset += FRAG_ID_LEN;

        // read total length
        let total_len = u16::from_be_bytes(
            buffer[offset..offset + TOTAL_LENGTH_LEN]
                .try_into()
                .unwrap(),
        );
        offset += TOTAL_LENGTH_LEN;

        // read protocol_type
        let mut protocol_type =
            u16::from_be_bytes(buffer[offset..offset + PROTOCOL_LEN].try_into().unwrap());
        offset += PROTOCOL_LEN;
        if protocol_type < SECOND_RANGE_PTYPE {
            // there is atleast one header extension
            // current protocol type is in fact first header extension id
            // iterate over all header extensions
            is_there_extension_header = true;
        }

        // read label
        let label: Label = Label::new(&label_type, &buffer[offset..offset + label_len]);
        offset += label_len;

        if label == Label::SixBytesLabel([0, 0, 0, 0, 0, 0]) {
            self.last_label = None;
            return Err((DecapError::ErrorInvalidLabel, pkt_len));
        }

        // update last label
        let current_label = match label_type {
            // read last_label
            LabelType::ReUse => match self.last_label {
                Some(Label::Broadcast) => {
                    self.last_label = None;
                    return Err((DecapError::ErrorLabelBroadcastSaved, pkt_len));
                }
                Some(Label::ReUse) => {
                    self.last_label = None;
                    return Err((DecapError::ErrorLabelReUseSaved, pkt_len));
                }
                None => {
                    self.last_label = None;
                    return Err((DecapError::ErrorNoLabelSaved, pkt_len));
                }
                _ => self.last_label.unwrap(),
            },
            // label broadcast
            LabelType::Broadcast => {
                self.last_label = None;
                Label::Broadcast
            }
            _ => {
                // save label
                self.last_label = Some(label);
                label
            }
        };

        if is_there_extension_header {
            match iterate_over_extension_header(
                &buffer[offset..pkt_len],
                &self.mandatory_extension_manager,
                protocol_type,
            ) {
                Err(e) => match e {
                    ExtensionHeaderError::BufferTooSmall => {
                        self.last_label = None;
                        return Err((DecapError::ErrorSizePduBuffer, buffer_len));
                    }
                    ExtensionHeaderError::UnknownMandatoryHeader => {
                        self.last_label = None;
                        return Err((DecapError::ErrorUnkownMandatoryHeader, pkt_len));
                    }
                },
                Ok(r) => {
                    offset += r.header_ext_len;
                    protocol_type = r.protocol_type;
                    header_ext_len = r.header_ext_len;
                    extensions = r.extensions;
                }
            };
        };
        let calculed_pdu_len =
            gse_len - (FRAG_ID_LEN + TOTAL_LENGTH_LEN + label_len + header_ext_len + PROTOCOL_LEN);
        // check the total len
        if total_len <= calculed_pdu_len as u16 {
            self.last_label = None;
            return Err((DecapError::ErrorTotalLength, buffer_len));
        }

        // create a new decap context
        let decap_context = DecapContext::new(
            current_label,
            protocol_type,
            frag_id,
            total_len,
            calculed_pdu_len as u16,
            label_type == LabelType::ReUse,
            extensions.clone(),
        );

        // Take a new frag from memory
        let (decap_context, mut pdu_buffer) = match self.memory.new_frag(decap_context) {
            Ok(ok) => ok,
            Err(err) => {
                self.last_label = None;
                return Err((DecapError::ErrorMemory(err), pkt_len));
            }
        };

        // check pdu buffer size
        let pdu_buffer_len = pdu_buffer.len();
        if pdu_buffer_len + label_len + header_ext_len + PROTOCOL_LEN + FRAG_ID_LEN + TOTAL_LENGTH_LEN
            < gse_len
        {
            self.last_label = None;
            // give the buffer back; if the memory refuses it, it is handed to the caller in the error
            if let Err(err) = self.memory.provision_storage(pdu_buffer) {
                return Err((DecapError::ErrorMemory(err), pkt_len));
            }
            return Err((DecapError::ErrorSizePduBuffer, pkt_len));
        }

        // read pdu
        pdu_buffer[..calculed_pdu_len].copy_from_slice(&buffer[offset..offset + calculed_pdu_len]);

        let metadata = DecapMetadata {
            pdu_len: 0,
            protocol_type: decap_context.protocol_type,
            label: decap_context.label,
            extensions,
        };
        // save state
        match self.memory.save_frag((decap_context, pdu_buffer)) {
            Ok(_) => Ok((DecapStatus::FragmentedPkt(metadata), pkt_len)),
            Err(err) => Err((DecapError::ErrorMemory(err), pkt_len)),
        }
    }

    #[inline(always)]
    fn decap_intermediate(
        &mut self,
        buffer: &[u8],
        pkt_len: usize,
        gse_len: usize,
    ) -> Result<(DecapStatus, usize), (DecapError, usize)> {
        let mut offset = FIXED_HEADER_LEN;
        let buffer_len = buffer.len();

        // check the gse length before reading the fields it must contain
        if gse_len <= FRAG_ID_LEN {
            self.last_label = None;
            return Err((DecapError::ErrorGseLength, buffer_len));
        }

        let frag_id = buffer[offset];
        offset += FRAG_ID_LEN;

        let calculed_pdu_len = gse_len - FRAG_ID_LEN;

        let (mut decap_context, mut pdu) = match self.memory.take_frag(frag_id) {
            Ok(ok) => ok,
            Err(err) => return Err((DecapError::ErrorMemory(err), pkt_len)),
        };

        // check the total length: the fragments cannot exceed the length announced by the first one
        if decap_context.pdu_len as usize + calculed_pdu_len > decap_context.total_len as usize {
            // give the buffer back; if the memory refuses it, it is handed to the caller in the error
            if let Err(err) = self.memory.provision_storage(pdu) {
                return Err((DecapError::ErrorMemory(err), pkt_len));
            }
            return Err((DecapError::ErrorTotalLength, pkt_len));
        }

        let pdu_buffer = &mut pdu[decap_context.pdu_len as usize..];

        let pdu_buffer_len = pdu_buffer.len();

        if pdu_buffer_len < calculed_pdu_len {
            // give the buffer back; if the memory refuses it, it is handed to the caller in the error
            if let Err(err) = self.memory.provision_storage(pdu) {
                return Err((DecapError::ErrorMemory(err), pkt_len));
            }
            return Err((DecapError::ErrorSizePduBuffer, pkt_len));
        }
        pdu_buffer[..calculed_pdu_len].copy_from_slice(&buffer[offset..offset + calculed_pdu_len]);

        // save state
        decap_context.pdu_len += calculed_pdu_len as u16;

        let metadata = DecapMetadata {
            pdu_len: 0,
            protocol_type: decap_context.protocol_type,
            label: decap_context.label,
            extensions: decap_context.extensions_header.clone(),
        };

        match self.memory.save_frag((decap_context, pdu)) {
            Err(err) => Err((DecapError::ErrorMemory(err), pkt_len)),
            Ok(()) => Ok((DecapStatus::FragmentedPkt(metadata), pkt_len)),
        }
    }

    #[inline(always)]
    fn decap_end(
        &mut self,
        buffer: &[u8],
        pkt_len: usize,
        gse_len: usize,
    ) -> Result<(DecapStatus, usize), (DecapError, usize)> {
        let mut offset = FIXED_HEADER_LEN;
        let buffer_len = buffer.len();
        // check the gse length before reading the fields it must contain
        if gse_len < FRAG_ID_LEN + CRC_LEN {
            self.last_label = None;
            return Err((DecapError::ErrorSizeBuffer, buffer_len));
        }

        let frag_id = buffer[offset];
        offset += FRAG_ID_LEN;

        let calculed_pdu_len = gse_len - (FRAG_ID_LEN + CRC_LEN);

        let (decap_context, mut pdu) = match self.memory.take_frag(frag_id) {
            Ok(ok) => ok,
            Err(err) => return Err((DecapError::ErrorMemory(err), pkt_len)),
        };

        let pdu_buffer = &mut pdu[decap_context.pdu_len as usize..];

        let pdu_buffer_len = pdu_buffer.len();

        if pdu_buffer_len < calculed_pdu_len {
            // give the buffer back; if the memory refuses it, it is handed to the caller in the error
            if let Err(err) = self.memory.provision_storage(pdu) {
                return Err((DecapError::ErrorMemory(err), pkt_len));
            }
            return Err((DecapError::ErrorSizePduBuffer, pkt_len));
        }

        pdu_buffer[..calculed_pdu_len].copy_from_slice(&buffer[offset..offset + calculed_pdu_len]);
        offset += calculed_pdu_len;

        let buffer_crc: [u8; 4] = buffer[offset..offset + CRC_LEN].try_into().unwrap();
        let received_crc: u32 = u32::from_be_bytes(buffer_crc);

        let pdu_len = decap_context.pdu_len as usize + calculed_pdu_len;
        let metadata = DecapMetadata {
            pdu_len,
            protocol_type: decap_context.protocol_type,
            label: decap_context.label,
            extensions: decap_context.extensions_header,
        };

        let (first_label_len, crc_label): (usize, &[u8]) = if decap_context.from_label_reuse {
            (0, &[])
        } else {
            (
                decap_context.label.get_type().len(),
                decap_context.label.get_bytes(),
            )
        };

        let total_len_received = pdu_len + PROTOCOL_LEN + first_label_len;
        if decap_context.total_len as usize != total_len_received {
            // give the buffer back; if the memory refuses it, it is handed to the caller in the error
            if let Err(err) = self.memory.provision_storage(pdu) {
                return Err((DecapError::ErrorMemory(err), pkt_len));
            }
            return Err((DecapError::ErrorTotalLength, pkt_len));
        }

        let calculted_crc = self.crc_calculator.calculate_crc32(
            &pdu[..pdu_len],
            decap_context.protocol_type,
            decap_context.total_len,
            crc_label,
        );

        if calculted_crc != received_crc {
            // give the buffer back; if the memory refuses it, it is handed to the caller in the error
            if let Err(err) = self.memory.provision_storage(pdu) {
                return Err((DecapError::ErrorMemory(err), pkt_len));
            }
            return Err((DecapError::ErrorCrc, pkt_len));
        }

        Ok((DecapStatus::CompletedPkt(pdu, metadata), pkt_len))
    }
}

/// GSE reading of 16b header
///
/// Return the tuple (`gse_len`, `pktType`, `Label_type`) based on the input buffer
pub fn read_gse_header(buffer: u16) -> Option<(usize, PktType, LabelType)> {
    let pkt_type: PktType = match buffer & START_END_MASK {
        COMPLETE_PKT => PktType::CompletePkt,
        FIRST_PKT => PktType::FirstFragPkt,
        END_PKT => PktType::EndFragPkt,
        INTERMEDIATE_PKT => PktType::IntermediateFragPkt,
        _ => unreachable!(),
    };

    // Read label type
    let label_type: LabelType = match buffer & LABEL_TYPE_MASK {
        LABEL_6_B => LabelType::SixBytesLabel,
        LABEL_3_B => LabelType::ThreeBytesLabel,
        LABEL_BROADCAST => LabelType::Broadcast,
        LABEL_REUSE => LabelType::ReUse,
        // Unreachable code
        _ => unreachable!(),
    };

    if let (PktType::IntermediateFragPkt, LabelType::SixBytesLabel) = (&pkt_type, &label_type) {
        return None;
    }
    // Read gse_length
    let gse_len = buffer & GSE_LEN_MASK;

    Some((gse_len as usize, pkt_type, label_type))
}

/// Represents the result of [`Decapsulator::get_label_or_frag_id`] function.
#[derive(Debug, PartialEq, Eq)]
pub enum LabelorFragId {
    Lbl(Label),
    FragId(u8),
}

#[derive(Debug, PartialEq, Eq)]
/// Errors returned by [`Decapsulator::get_label_or_frag_id`] function when it fails.
///
/// This enum is used as the `Err` variant in a `Result` type.
///
/// # Variantss
/// * `ErrLabelReuse` - Indicates that the label read is a reUse Label.
/// * `ErrSizeBuffer` - Indicates that the input buffer is too small to be a Gse Packet.
/// * `ErrHeaderRead` - Indicates that the header read do not correspond to a GSE packet (probably padding).
pub enum GetLabelorFragIdError {
    ErrLabelReuse,
    ErrSizeBuffer,
    ErrHeaderRead,
    ErrorUnkownMandatoryHeader,
}

impl GetLabelorFragIdError {
    pub fn to_str(&self) -> &'static str {
        match self {
            Self::ErrLabelReuse => "Last Label can not be retrieved",
            Self::ErrSizeBuffer => "Packet too small for gse packet",
            Self::ErrHeaderRead => "Can not read header",
            Self::ErrorUnkownMandatoryHeader => {
                "Header contains unknown Mandatory Header Extension "
            }
        }
    }
}

#[derive(PartialEq, Eq, Clone)]
#[doc(hidden)]
/// Errors returned by [`iterate_over_extension_header`] function when it fails.
///
/// This enum is used as the `Err` variant in a `Result` type.
///
/// # Variantss
/// * `UnknownMandatoryHeader` - Indicates the presence of an unkown mandatory header extension.
/// * `BufferTooSmall` - Indicates that the input buffer is too small to be a Gse Packet.
///
/// Enumeration DecapError
///
/// The decapsulation failed, the status return a comment about the error that occured.
pub enum ExtensionHeaderError {
    UnknownMandatoryHeader,
    BufferTooSmall,
}

impl ExtensionHeaderError {
    pub fn to_str(&self) -> &'static str {
        match self {
            Self::UnknownMandatoryHeader => "Header contains unknown Mandatory Header Extension ",
            Self::BufferTooSmall => "Buffer too small to contain the promised header extension(s)",
        }
    }
}

pub struct IterateOverExtensionHeaderStatus {
    extensions: Vec<Extension>,
    protocol_type: u16,
    header_ext_len: usize, //header ext len + protocol type
}

#[inline(always)]
/// GSE reading of the header extension
///
/// Return the extension read, the total size of extension (data + id) and the protocol type based on the input buffer
fn iterate_over_extension_header<MHEM: MandatoryHeaderExtensionManager>(
    pdu: &[u8],
    mandatory_extension_header_manager: &MHEM,
    first_ext_id: u16,
) -> Result<IterateOverExtensionHeaderStatus, ExtensionHeaderError> {
    let mut offset: usize = 0;
    let mut extensions: Vec<Extension> = vec![];
    let pdu_len = pdu.len();

    let mut protocol_type: u16 = first_ext_id;

    while protocol_type < SECOND_RANGE_PTYPE {
        // enter in at least one
        // this is an header extension
        // reading the size of the extension
        let h_len: u8 = ((protocol_type & H_LEN_MASK) >> 8).try_into().unwrap();
        if h_len == 0 {
            // this is a mandatory header extension
            // if we don't know this extension, we must drop the packet
            match mandatory_extension_header_manager.is_mandatory_header_id_known(protocol_type) {
                // unknown -> drop the packet
                MandatoryHeaderExt::Unknown => {
                    return Err(ExtensionHeaderError::UnknownMandatoryHeader);
                }

                MandatoryHeaderExt::Final(size_data) => {
                    if pdu_len < offset + size_data as usize {
                        return Err(ExtensionHeaderError::BufferTooSmall);
                    }
                    match Extension::new(protocol_type, &pdu[offset..offset + size_data as usize]) {
                        Ok(extension) => extensions.push(extension),
                        Err(_) => todo!(),
                    };

                    offset += size_data as usize;
                    break; // final ->  no more extension, neither protocol type
                }

                MandatoryHeaderExt::NonFinal(size_data) => {
                    if pdu_len < offset + size_data as usize {
                        return Err(ExtensionHeaderError::BufferTooSmall);
                    }
                    match Extension::new(protocol_type, &pdu[offset..offset + size_data as usize]) {
                        Ok(extension) => extensions.push(extension),
                        Err(_) => todo!(),
                    };

                    offset += size_data as usize;
                }
            }
        } else {
            // this is a optionnal header extension
            // using H-LEN to determine the size of the extension DATA
            let Ok(current_ext_data_len) = optionnal_extension_data_size_from_hlen(h_len) else {
                unreachable!()
            };
            // H-LEN = 0 <=> mandatory header extension, case already managed
            // H-LEN > 5 <=> protocol type > SECOND_RANGE_PTYPE, unreachable

            if pdu_len < offset + current_ext_data_len {
                return Err(ExtensionHeaderError::BufferTooSmall);
            }
            let current_ext = Extension::new(
                protocol_type,
                &pdu[offset..offset + current_ext_data_len],
            );

            match current_ext {
                Ok(extension) => extensions.push(extension),
                Err(_) => todo!(),
            }
            offset += current_ext_data_len;
        }
        // reading protocol type for next iteration
        if pdu_len < offset + PROTOCOL_LEN {
            return Err(ExtensionHeaderError::BufferTooSmall);
        }
        protocol_type = u16::from_be_bytes(pdu[offset..offset + PROTOCOL_LEN].try_into().unwrap());
        offset += PROTOCOL_LEN;
    }
    Ok(IterateOverExtensionHeaderStatus {
        extensions,
        protocol_type,
        header_ext_len: offset,
    })
}
