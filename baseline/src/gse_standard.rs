// Copyright 2023, Viveris Technologies
// Distributed under the terms of the MIT License

//! Module for GSE standard constants
//!
//! This module contains the GSE standard constants, and some masks to obtain them.

// Gse constant for start and end bits
pub const COMPLETE_PKT: u16 = 0xC000;
pub const FIRST_PKT: u16 = 0x8000;
pub const INTERMEDIATE_PKT: u16 = 0x0000;
pub const END_PKT: u16 = 0x4000;
pub const START_END_MASK: u16 = 0xC000;

// Gse constant for label type
pub const LABEL_6_B: u16 = 0;
pub const LABEL_3_B: u16 = 0x1000;
pub const LABEL_BROADCAST: u16 = 0x2000;
pub const LABEL_REUSE: u16 = 0x3000;
pub const LABEL_TYPE_MASK: u16 = 0x3000;

pub const LABEL_6_B_LEN: usize = 6;
pub const LABEL_3_B_LEN: usize = 3;
pub const LABEL_BROADCAST_LEN: usize = 0;
pub const LABEL_REUSE_LEN: usize = 0;

// Gse fields size
pub const FIXED_HEADER_LEN: usize = 2;
pub const PROTOCOL_LEN: usize = 2;
pub const FRAG_ID_LEN: usize = 1;
pub const TOTAL_LENGTH_LEN: usize = 2;
pub const FIRST_FRAG_LEN: usize = FIXED_HEADER_LEN + FRAG_ID_LEN + TOTAL_LENGTH_LEN + PROTOCOL_LEN;
pub const GSE_LEN_MAX: usize = 0xFFF;

// Gse constant for gse len
pub const GSE_LEN_MASK: u16 = 0x0FFF;

// Gse constant for total_length
pub const TOTAL_LEN_MAX: usize = 0xFFFF;

// Gse constant for CRC
pub const CRC_LEN: usize = 4;
pub const CRC_INIT: u32 = 0xFFFF_FFFF;

// GSE constant for protocol type
// All protocols above 1535 are procesed as user trafic
// https://www.etsi.org/deliver/etsi_ts/102600_102699/10260601/01.02.01_60/ts_10260601v010201p.pdf
pub const SECOND_RANGE_PTYPE: u16 = 0x600;
pub const MAX_MANDATORY_VAL_PTYPE : u16 = 0x100;
// https://www.etsi.org/deliver/etsi_en/301500_301599/30154502/01.03.01_60/en_30154502v010301p.pdf
// Section 5.1.0
pub const NCR_PROTOCOL_ID: u16 = 0x0081;
pub const INTERNAL_SIGNALING_PROTOCOL_ID: u16 = 0x0082;
// Gse Mask for Header Extension 
pub const H_LEN_MASK: u16 = 0b111 << 8;
