// Copyright 2023, Viveris Technologies
// Distributed under the terms of the MIT License

//! Module for Header Extension
//! 
//! The header extension ID replaces the protocol type. Any associated data and the true protocol type are moved to the end of the header.
//! The presence of a header extension can be detected by checking if the value of the protocol type is less than 1535.
//!
//! # Optionnal Header Extension & Mandatory Header Extension
//! Extension Header can be optionnal or mandatory.
//! Optionnal Header Extension are not necessary to understand the PDU load. The size of the associated data can be known using its ID.
//! 
//! The receiver must know all Mandatory Extension Header contained by a packet to be able to process it correctly.
//! Thus, packets with at least one unknown mandatory header extension are dropped by the `decapsulator` from [`crate::gse_decap`].
//! 
//! The trait [`MandatoryHeaderExtensionManager`] (given at the creation of the `decapsulator`) allows user to define which mandatory extension are known and how to treat them. \
//! Its default implementation [`SimpleMandatoryExtensionHeaderManager`] doesn't known any mandatory extension.
//! 
//! 
//! 
//! # Examples of packet
//! 
//! ### GSE Packet (first frag or complete packet) without header extension
//! ```text
//!    +-------+------------------+-------+------------------------------------------------------+
//!    |  ...  |   Protocol Type  |  ...  |                         PDU                          |
//!    +-------+------------------+-------+------------------------------------------------------+
//!    <----------- GSE header ----------->
//! ```
//!
//! ###  GSE Packet (first frag or complete packet) with one header extension with data
//! ```text
//!    +-------+-----------+-------+-----------+---------------+---------------------------------+
//!    |  ...  |  H.E. ID  |  ...  | H.E. Data | Protocol Type |           PDU                   |
//!    +-------+-----------+-------+-----------+---------------+---------------------------------+
//!    <--------------------- GSE header --------------------- >
//! ```
//! 
//! ### GSE Packet (first frag or complete packet) with two header extension each with both data
//! ```text
//!    +-------+-------------+-------+--------------+-----------+-------------+---------------+--------------------------------+
//!    |  ...  |  H.E. 1 ID  |  ...  |  H.E. 1 Data | H.E. 2 ID | H.E. 2 Data | Protocol Type |              PDU               |
//!    +-------+-------------+-------+--------------+-----------+-------------+---------------+--------------------------------+
//!    <------------------------------------ GSE header -------------------------------------->
//!  ``` 
//! 
//! # Documentations
//! GSE header extension cames from previous ULE protocol
//! * `[IETF RFC 5163]` : "Extension Formats for Unidirectional Lightweight Encapsulation (ULE) and the Generic Stream Encapsulation (GSE)" - § Section 5 \
//! * `[ETSI TS 102 606]` : "Digital Video Broadcasting (DVB); Generic Stream Encapsulation (GSE) Protocol" \
//! * `[ETSI TS 102 771]` : "Digital Video Broadcasting (DVB); Generic Stream Encapsulation (GSE) implementation guidelines" - § Section 6.1.2 \
//! * `[ETSI EN 301 542-2]` : "Digital Video Broadcasting (DVB) ; Second Generation DVB Interactive Satellite System" - § Section 5.1
#[cfg(test)]
mod tests;
use crate::gse_standard::{INTERNAL_SIGNALING_PROTOCOL_ID, MAX_MANDATORY_VAL_PTYPE, NCR_PROTOCOL_ID, PROTOCOL_LEN, SECOND_RANGE_PTYPE};


pub type ExtID = u16;

#[derive(Debug, PartialEq, Eq, Clone)]

/// This represents one header extension. \
/// 
/// A header extension is composed of one ID (2 bytes) and its data (if present). \
/// For a certain range of IDs, the length of the data can be determined by the ID. (see the table below) \
///
///  ### Extension header ID (always 2 bytes) 
/// ```text
///  +--------------------+------------------+
///  |  0 0 0 0 0 H H H   |  D D D D D D D D |
///  +--------------------+------------------+
/// ```
/// * First 5 bits: Always zero. If not, the ID value exceeds 1536, and this is not an header extension but a protocol type. \
/// * Next 3 bits (HHH): Known as H-LEN. H-LEN cannot exceed 5 . It determines the size of the extension data. \
///  ```text
///  | HLEN Value | data length |  Range of id corresponding
///  |     0      |  unkwown    |  [0 ; 255] -----------> Mandatory header extension
///  |     1      |  0          |  [256 ; 511]    ⌝
///  |     2      |  2 Bytes    |  [512 ; 767]    |
///  |     3      |  4 Bytes    |  [768 ; 1023]   | ----> Optionnal Header Extension
///  |     4      |  6 Bytes    |  [1024 ; 1279]  |
///  |     5      |  8 Bytes    |  [1280 ; 1535]  ⌟
///  |     > 5    |  impossible |  [1536 ; 65535]  -----> Protocol type
///  ```
/// 
/// For H-LEN in `[1; 5]`: The extension is optional. The data size is known using the table above. These extensions are not necessary to understand the PDU load.
/// 
/// If H-LEN is 0, the extension is mandatory. The data size cannot be determined; the receiver must know this extension to process the packet.
/// Packets with at least one unknown mandatory header extension must be dropped.
///
/// Mandatory Extension Headers :
///  - Final Mandatory Extension Header: Replaces the protocol type.
///  - Non-Final Mandatory Extension Header: Does not replace the protocol type.
///  # Warning 
/// Extension should always be created using new  
pub struct Extension {
    id: ExtID,
    data: ExtensionData,
}


#[derive(Debug, Clone, PartialEq, Eq)]
/// Stores the data of one extension header
/// 
/// Mandatory Header Extension data length depends on the extension itself.
pub enum ExtensionData {
    Data2([u8; 2]),
    Data4([u8; 4]),
    Data6([u8; 6]),
    Data8([u8; 8]),
    NoData,
    MandatoryData(Vec<u8>),
}



/// Error returned by [`Extension::new`] function when it fails.
/// 
/// This enum is intended to be used as the `Err` variant in a `Result` type.
/// 
#[derive(Debug,PartialEq)]
pub enum  NewExtensionError{
    /// Indicates that the length of data doesn't match the id given.
    IdAndVecSizeNotMatchingError,

    /// Indicates that id provided exceed the maximum value (>1535)
    IncorrectExtensionId,
}


impl Extension {
    #[allow(clippy::len_without_is_empty)]
    /// Get the total extension len (ID + Data)
    pub fn len(&self) -> usize {
        match &self.data {
            ExtensionData::Data2(_) => 2 + PROTOCOL_LEN,
            ExtensionData::Data4(_) =>  4 + PROTOCOL_LEN,
            ExtensionData::Data6(_) =>  6 + PROTOCOL_LEN,
            ExtensionData::Data8(_) => 8 + PROTOCOL_LEN,
            ExtensionData::NoData => PROTOCOL_LEN,
            ExtensionData::MandatoryData(data) => PROTOCOL_LEN + data.len(),
        }
    }

    /// # Warning 
    /// Extension should always be created using new 
    pub fn new(id : u16,  data : &[u8]) -> Result<Self,NewExtensionError>{
        if id >= SECOND_RANGE_PTYPE {
            return Err(NewExtensionError::IncorrectExtensionId)
        }
        if id < MAX_MANDATORY_VAL_PTYPE {
            return Ok(Extension { id, data: ExtensionData::MandatoryData(data.into())});
        }

        let data_size_from_id = match optionnal_extension_data_size_from_hlen((id >> 8).try_into().unwrap()){
            Err(_) => unreachable!(), // HLEN > 5 <=> id > SECOND_RANGE_PTYPE, HLEN = 0 <=> id < MAX_MANDATORY_VAL_PTYPE
            Ok(size) => size,
        };

        if data_size_from_id != data.len() {
            return Err(NewExtensionError::IdAndVecSizeNotMatchingError);
        };

        match data.len() {
            0 => Ok(Extension { id, data: ExtensionData::NoData}),
            2 => Ok(Extension { id, data: ExtensionData::Data2(data.try_into().expect("unreachable"))}),
            4 => Ok(Extension { id, data: ExtensionData::Data4(data.try_into().expect("unreachable"))}),
            6 => Ok(Extension { id, data: ExtensionData::Data6(data.try_into().expect("unreachable"))}),
            8 => Ok(Extension { id, data: ExtensionData::Data8(data.try_into().expect("unreachable"))}),
            _ => unreachable!(),
        }
    }

    // getters
    pub fn id(&self) -> ExtID {
        self.id
    }
    
    pub fn data(&self) -> &ExtensionData {
        &self.data
    }
}



/// Defines whether the mandatory extension header is recognized by the receiver and its size in the [`MandatoryHeaderExtensionManager`] trait.
///
/// If a mandatory header extension is unknown to the receiver, its size is also unknown. This scenario may also indicate that
/// the packet is compressed or encrypted, in which case the packet must be discarded.
///
/// A final mandatory header extension replaces the protocol type.
///
/// A known, non-final mandatory header extension is treated similarly to an optional header extension.
/// However, its size cannot be extracted from the packet directly but is known to the receiver through the trait.
#[derive(PartialEq)]
pub enum MandatoryHeaderExt {
    Final(u8),
    NonFinal(u8),
    Unknown,
}

/// Trait defining which mandatory extension are known by the receiver (and their data length).
pub trait MandatoryHeaderExtensionManager {
    /// For each known mandatory header extension, it should return the size of the data following this header extension.
    /// should return `MandatoryHeaderExt::Unknown` if the extension is unknown
    fn is_mandatory_header_id_known(&self, id: u16) -> MandatoryHeaderExt;
}

#[derive(Copy, Clone)]
/// Naive implementation of the trait [`MandatoryHeaderExtensionManager`], that 
/// doesn't know any mandatory extension manager
/// 
/// Thus, any packet that contains one will be dropped by a `decapsulator` using this trait.
pub struct SimpleMandatoryExtensionHeaderManager {}
impl MandatoryHeaderExtensionManager for SimpleMandatoryExtensionHeaderManager {
    fn is_mandatory_header_id_known(&self, _: u16) -> MandatoryHeaderExt {
        MandatoryHeaderExt::Unknown
    }
}

/// Implementation of the trait [`MandatoryHeaderExtensionManager`] for signalisation.
/// 
/// It knows the final extension 0x0081 and 0x0082 used in signalisation.
/// * 0x0081 : Network Clock Reference, no data
/// * 0x0082 : Internal M&C signalling (L2S), no data
/// 
/// ## Specification
/// See `[ETSI 301 545-2]` :  "Second Generation DVB for Interactive Satellite System (DVB-RCS2); Part 2: Lower Layers for Satellite standard"
#[derive(Copy, Clone)]
pub struct SignalisationMandatoryExtensionHeaderManager {}
impl MandatoryHeaderExtensionManager for SignalisationMandatoryExtensionHeaderManager {
    fn is_mandatory_header_id_known(&self, id: u16) -> MandatoryHeaderExt {
        match id {
            INTERNAL_SIGNALING_PROTOCOL_ID | NCR_PROTOCOL_ID => MandatoryHeaderExt::Final(0),
            _ => MandatoryHeaderExt::Unknown,
        }
    }
}

#[derive(Debug)]
#[doc(hidden)]
/// Errors returned by [`optionnal_extension_data_size_from_hlen`] function when it fails.
///
/// This enum is intended to be used as the `Err` variant in a `Result` type.
pub(crate)  enum HlenError {
    /// Indicates that the h-len given correspond to a mandatory header extension, so the size of the data can not be obtain from it.
    MandatoryHeader,
    /// Indicates that `HLen` provided exceed the maximum value for an extension (5), probably a protocol type.
    UnknownHLen,
}

#[inline(always)]
#[doc(hidden)]
/// This function return the size (in bytes) of the optionnal header extension based on the H-LEN given.
///
/// # Arguments
///
/// * `h_len`
/// 
/// # Returns
/// * `Ok(usize)` - the size of header extension data (in bytes)
/// * `Err(HlenError::MandatoryHeader)` - if this is a mandatory extension (h_len = 0)
/// * `Err(HlenError::UnknownHLe)` - if H_LEN doesn't correspond to a header extension (i.e. H-LEN > 5) 
pub(crate) fn optionnal_extension_data_size_from_hlen(h_len: u8) -> Result<usize, HlenError> { //todo p
    match h_len {
        0 => Err(HlenError::MandatoryHeader),
        1 => Ok(0),
        2 => Ok(2),
        3 => Ok(4),
        4 => Ok(6),
        5 => Ok(8),
        _ => Err(HlenError::UnknownHLen),
    }
}