// Copyright 2023, Viveris Technologies
// Distributed under the terms of the MIT License

//! Module for label
//!
//! This module contains the representation of GSE Label and the functions associated.
//! 
#[cfg(test)]
mod tests;
use crate::gse_standard::{LABEL_3_B_LEN, LABEL_6_B_LEN, LABEL_BROADCAST_LEN, LABEL_REUSE_LEN};

/// Represent a Label and its data
///
/// Define label byte array based on the label type
#[derive(PartialEq, Eq, Debug, Clone, Copy)]
pub enum Label {
    SixBytesLabel([u8; 6]),
    ThreeBytesLabel([u8; 3]),
    Broadcast,
    ReUse,
}

#[derive(PartialEq, Eq, Debug)]
/// Represent the type of Label
pub enum LabelType {
    SixBytesLabel,
    ThreeBytesLabel,
    Broadcast,
    ReUse,
}

impl Label {
    /// Get label type (u16)
    ///
    /// Return the 2 bits label type shifted by 12 to the left
    pub fn get_type(&self) -> LabelType {
        let label_type: LabelType = match self {
            Label::SixBytesLabel(_) => LabelType::SixBytesLabel,
            Label::ThreeBytesLabel(_) => LabelType::ThreeBytesLabel,
            Label::Broadcast => LabelType::Broadcast,
            Label::ReUse => LabelType::ReUse,
        };
        label_type
    }

    /// Get label len
    ///
    /// Return the size of the label byte array

    #[allow(clippy::len_without_is_empty)]

 pub fn len(&self) -> usize {
        let label_length: usize = match self {
            Label::SixBytesLabel(_) => LABEL_6_B_LEN,
            Label::ThreeBytesLabel(_) => LABEL_3_B_LEN,
            Label::Broadcast => LABEL_BROADCAST_LEN,
            Label::ReUse => LABEL_REUSE_LEN,
        };
        label_length
    }

    /// Create a new label based on label type and label content
    pub fn new(label_type: &LabelType, label: &[u8]) -> Label {
        if label.len() == label_type.len() {
            let label: Label = match label_type {
                LabelType::SixBytesLabel => Label::SixBytesLabel(label.try_into().unwrap()),
                LabelType::ThreeBytesLabel => Label::ThreeBytesLabel(label.try_into().unwrap()),
                LabelType::Broadcast => Label::Broadcast,
                LabelType::ReUse => Label::ReUse,
            };
            label
        } else {
            // Misuse of function
            panic!("Wrong size label content");
        }
    }

    /// Get the label byte array from label
    pub fn get_bytes(&self) -> &[u8] {
        let label: &[u8] = match self {
            Label::SixBytesLabel(label) => label,
            Label::ThreeBytesLabel(label) => label,
            Label::Broadcast | Label::ReUse => &[],
        };
        label
    }
}

impl LabelType {
    /// Get label len
    ///
    /// Return the size of the label byte array

    #[allow(clippy::len_without_is_empty)]

    pub fn len(&self) -> usize {
        let label_length: usize = match self {
            LabelType::SixBytesLabel => LABEL_6_B_LEN,
            LabelType::ThreeBytesLabel => LABEL_3_B_LEN,
            LabelType::Broadcast => LABEL_BROADCAST_LEN,
            LabelType::ReUse => LABEL_REUSE_LEN,
        };
        label_length
    }
}
