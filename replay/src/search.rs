//! Witness searches for failed obligations: boundary lattices / small exhaustive spaces executed against the real crate and
//! compared with a plain-Rust oracle.  A hit is printed as `{"search":NAME,"params":[..]}` and re-executed by `replay`.
//! This code only *decorates* an already failed proof with a concrete input; it can never create a violation.
use crate::oracle::*;
use dvb_gse_rust::crc::{CrcCalculator, DefaultCrc};
use dvb_gse_rust::gse_decap::{DecapContext, DecapError, DecapMemoryError, DecapStatus, Decapsulator, GetLabelorFragIdError, GseDecapMemory, LabelorFragId, SimpleGseMemory};
use dvb_gse_rust::gse_decap::read_gse_header;
use dvb_gse_rust::gse_encap::{encap_frag_preview, encap_preview, generate_gse_header, ContextFrag, EncapMetadata, EncapStatus, Encapsulator};
use dvb_gse_rust::header_extension::{Extension, SimpleMandatoryExtensionHeaderManager};
use dvb_gse_rust::label::Label;
use dvb_gse_rust::utils::{GseCompletePacket, GseEndFragPacket, GseFirstFragPacket, GseIntermediatePacket, Serialisable};

type P = Vec<i64>;
type Dec = Decapsulator<SimpleGseMemory, DefaultCrc, SimpleMandatoryExtensionHeaderManager>;

const SIZES: &[i64] = &[0, 1, 2, 3, 4, 5, 6, 7, 9, 10, 12, 13, 14, 20, 100, 4085, 4086, 4087, 4088, 4089, 4090, 4091, 4092, 4093, 4094, 4095, 4096,
    4097, 4098, 4099, 4100, 4104, 5000, 8190, 8200, 65525, 65527, 65528, 65530, 65531, 65533, 65534, 65535, 65536, 65539, 65543, 70000];
const SMALL: &[i64] = &[0, 1, 2, 3, 4, 5, 6, 7, 9, 10, 12, 13, 14, 20, 100, 4090, 4093, 4094, 4095, 4096, 4097, 4098, 4100, 5000];
const PTYPES: &[i64] = &[0x0800, 0x0600, 0xFFFF, 0x81, 0xFF, 0x100, 0x5FF];

fn label_of(kind: i64) -> Label {
    match kind { 0 => Label::SixBytesLabel([1, 2, 3, 4, 5, 6]), 1 => Label::ThreeBytesLabel([7, 8, 9]), 2 => Label::Broadcast, 3 => Label::ReUse,
                 5 => Label::ThreeBytesLabel([0, 0, 0]), _ => Label::SixBytesLabel([0; 6]) }
}
fn lbytes(l: &Label) -> Vec<u8> { match l { Label::SixBytesLabel(b) => b.to_vec(), Label::ThreeBytesLabel(b) => b.to_vec(), _ => vec![] } }
/// structural comparison that does not go through the crate's own PartialEq for Label
fn same_label(a: &Label, b: &Label) -> bool { lt_of(a) == lt_of(b) && lbytes(a) == lbytes(b) }
fn lt_of(l: &Label) -> u8 { match l { Label::SixBytesLabel(_) => 0, Label::ThreeBytesLabel(_) => 1, Label::Broadcast => 2, Label::ReUse => 3 } }
fn pdu_of(n: usize) -> Vec<u8> { (0..n).map(|i| (i * 7 + 3) as u8).collect() }
fn enc() -> Encapsulator<DefaultCrc> { Encapsulator::new(DefaultCrc {}) }
fn dec(slots: usize, size: usize, nbuf: usize) -> Dec {
    let mut m = SimpleGseMemory::new(slots, size, 0, 0);
    for _ in 0..nbuf { let _ = m.provision_storage(vec![0u8; size].into_boxed_slice()); }
    Decapsulator::new(m, DefaultCrc {}, SimpleMandatoryExtensionHeaderManager {})
}

// ----------------------------------------------------------------------------------------------------------------
// 1. encap: [pdu_len, buf_len, label_kind, ptype, sent_before]
fn s_enc(p: &P) -> Option<String> {
    let (pl, bl, lk, pt, before) = (p[0] as usize, p[1] as usize, p[2], p[3] as u16, p[4] != 0);
    let label = label_of(lk);
    let pdu = pdu_of(pl);
    let mut e = enc();
    if before { let mut big = vec![0u8; 64]; let _ = e.encap(&[1, 2, 3], 9, EncapMetadata::new(0x0800, label), &mut big); }
    let snap = e.clone();
    let mut buf: Vec<u8> = (0..bl).map(|i| (i % 251) as u8 ^ 0x5A).collect();
    let orig = buf.clone();
    let md = EncapMetadata::new(pt, label);
    let res = match no_panic(|| e.encap(&pdu, 5, md, &mut buf)) { Ok(r) => r, Err(_) => return Some("encap panicked".into()) };
    let prev = match no_panic(|| encap_preview(&pdu, md, &orig)) { Ok(r) => r, Err(_) => return Some("encap_preview panicked".into()) };
    let zero = lk == 4;
    let bad_pt = (0x100..0x600).contains(&pt);
    match &res {
        Err(err) => {
            if buf != orig { return Some("Err but the buffer was modified".into()); }
            if e != snap { return Some("Err but the encapsulator state changed".into()); }
            if !before { if let Ok(pv) = &prev { return Some(format!("encap Err({:?}) but preview Ok({:?})", err, pv)); }
                         if let Err(pe) = &prev { if pe != err { return Some(format!("encap Err({:?}) vs preview Err({:?})", err, pe)); } } }
            // with the label written in full, does it have to succeed?
            let ll = lbytes(&label).len();
            if !zero && !bad_pt && pl + 2 + ll <= 0xFFFF && bl >= 7 + ll && !(before && lk <= 1) { return Some(format!("refused although a first fragment fits: {:?}", err)); }
            None
        }
        Ok(st) => {
            if zero { return Some("zero 6-byte label accepted".into()); }
            if bad_pt { return Some("protocol type in 0x100..0x600 accepted".into()); }
            let (n, ctx) = match st { EncapStatus::CompletedPkt(n) => (*n as usize, None), EncapStatus::FragmentedPkt(n, c) => (*n as usize, Some(*c)) };
            if n > bl { return Some(format!("reported length {n} exceeds the buffer {bl}")); }
            if buf[n..] != orig[n..] { return Some("bytes at or beyond the reported length were modified".into()); }
            let h = match parse_hdr(&buf[..n]) { Some(h) => h, None => return Some("packet shorter than a header".into()) };
            if h.gse_len + 2 != n { return Some(format!("GSE length field {} but {} bytes reported", h.gse_len, n)); }
            if h.gse_len > 4095 { return Some("GSE length above 4095".into()); }
            let written = if h.lt == 3 && lk != 3 { if !(before && lk <= 1) { return Some("label replaced by re-use although nothing permits it".into()); } Label::ReUse } else { label };
            if h.lt != lt_of(&written) { return Some("label type bits do not match the label".into()); }
            let lw = lbytes(&written);
            if pl + 2 + lw.len() > 0xFFFF { return Some("PDU exceeding the 16-bit total length was accepted".into()); }
            let fits = 2 + lw.len() + pl <= 4095 && bl >= 4 + lw.len() + pl;
            match ctx {
                None => {
                    if !(h.s && h.e) { return Some("completed status but S/E bits are not 11".into()); }
                    if !fits { return Some("completed although it does not fit".into()); }
                    if n != 4 + lw.len() + pl { return Some("wrong length of the complete packet".into()); }
                    if buf[2..4] != pt.to_be_bytes() || buf[4..4 + lw.len()] != lw[..] || buf[4 + lw.len()..n] != pdu[..] { return Some("fields of the complete packet are wrong".into()); }
                    if !before { match &prev { Ok(pv) if pv.pkt_len() as usize == n && format!("{:?}", pv.pkt_type()) == "CompletePkt" => {}, other => return Some(format!("preview disagrees: {:?}", other)) } }
                }
                Some(c) => {
                    if !(h.s && !h.e) { return Some("fragmented status but S/E bits are not 10".into()); }
                    if fits { return Some("fragmented although a complete packet fits".into()); }
                    let k = c.len_pdu_frag() as usize;
                    if n != 7 + lw.len() + k { return Some(format!("context counts {k} bytes but the packet carries {}", n as i64 - 7 - lw.len() as i64)); }
                    if k >= pl.max(1) && pl > 0 || (pl == 0 && k != 0) { return Some("first fragment is not a proper prefix".into()); }
                    let total = (pl + 2 + lw.len()) as u16;
                    if buf[2] != 5 || buf[3..5] != total.to_be_bytes() || buf[5..7] != pt.to_be_bytes() || buf[7..7 + lw.len()] != lw[..] || buf[7 + lw.len()..n] != pdu[..k] { return Some("fields of the first fragment are wrong".into()); }
                    if c.frag_id() != 5 { return Some("frag id of the context".into()); }
                    let mut d = total.to_be_bytes().to_vec(); d.extend_from_slice(&pt.to_be_bytes()); d.extend_from_slice(&lw); d.extend_from_slice(&pdu);
                    if c.crc() != crc_mpeg2(&d) { return Some("context CRC is not CRC-32/MPEG-2 over total length, protocol type, label written, PDU".into()); }
                    if !before { match &prev { Ok(pv) if pv.pkt_len() as usize == n && format!("{:?}", pv.pkt_type()) == "FirstFragPkt" => {}, other => return Some(format!("preview disagrees: {:?} vs FragmentedPkt({n})", other)) } }
                }
            }
            None
        }
    }
}
fn g_enc() -> Vec<P> {
    let mut v = vec![];
    for &pl in SIZES { for &bl in SIZES { for lk in [0, 1, 2, 3, 4] { for &pt in PTYPES { for before in [0, 1] {
        if (pt != 0x0800 && pt != 0x81 && pt != 0x100) && !(pl <= 13 && bl <= 20) { continue; }
        if before == 1 && lk > 1 { continue; }
        v.push(vec![pl, bl, lk, pt, before]);
    } } } } }
    v
}

// ----------------------------------------------------------------------------------------------------------------
// 2. encap_frag: [pdu_len, ctx_len, buf_len]
fn s_frag(p: &P) -> Option<String> {
    let (pl, cl, bl) = (p[0] as usize, p[1] as usize, p[2] as usize);
    let pdu = pdu_of(pl);
    let ctx = ContextFrag::new(9, 0xA1B2C3D4, cl as u16);
    let mut buf: Vec<u8> = (0..bl).map(|i| (i % 253) as u8 ^ 0x33).collect();
    let orig = buf.clone();
    let e = enc();
    let res = match no_panic(|| e.encap_frag(&pdu, &ctx, &mut buf)) { Ok(r) => r, Err(_) => return Some("encap_frag panicked".into()) };
    let prev = match no_panic(|| encap_frag_preview(&pdu, &ctx, &orig)) { Ok(r) => r, Err(_) => return Some("encap_frag_preview panicked".into()) };
    match &res {
        Err(err) => {
            if buf != orig { return Some("Err but the buffer was modified".into()); }
            if cl <= pl && bl >= 7 { return Some(format!("buffer of {bl} >= 7 bytes refused: {:?}", err)); }
            match &prev { Err(pe) if pe == err => {}, other => return Some(format!("preview disagrees: {:?} vs Err({:?})", other, err)) }
            None
        }
        Ok(st) => {
            if cl > pl { return Some("context beyond the PDU accepted".into()); }
            let rem = pl - cl;
            let (n, c2) = match st { EncapStatus::CompletedPkt(n) => (*n as usize, None), EncapStatus::FragmentedPkt(n, c) => (*n as usize, Some(*c)) };
            if n > bl { return Some(format!("reported length {n} exceeds the buffer {bl}")); }
            if buf[n..] != orig[n..] { return Some("bytes at or beyond the reported length were modified".into()); }
            let h = parse_hdr(&buf[..n])?;
            if h.gse_len + 2 != n { return Some(format!("GSE length field {} but {} bytes reported", h.gse_len, n)); }
            if h.lt != 3 { return Some("continuation packet without label type 11".into()); }
            if buf[2] != 9 { return Some("frag id".into()); }
            match c2 {
                None => {
                    if h.s || !h.e { return Some("completed status but S/E bits are not 01".into()); }
                    if n != rem + 7 { return Some("end packet length".into()); }
                    if buf[3..3 + rem] != pdu[cl..] || buf[3 + rem..n] != 0xA1B2C3D4u32.to_be_bytes() { return Some("end packet payload / CRC".into()); }
                    match &prev { Ok(pv) if pv.pkt_len() as usize == n && pv.pdu_len() == rem && format!("{:?}", pv.pkt_type()) == "EndFragPkt" => {}, other => return Some(format!("preview disagrees: {:?}", other)) }
                }
                Some(c) => {
                    if h.s || h.e { return Some("fragmented status but S/E bits are not 00".into()); }
                    let k = n - 3;
                    if k == 0 { return Some("empty intermediate fragment".into()); }
                    if c.len_pdu_frag() as usize != cl + k { return Some(format!("context advanced to {} but {} bytes were written", c.len_pdu_frag(), k)); }
                    if c.frag_id() != 9 || c.crc() != 0xA1B2C3D4 { return Some("frag id / CRC of the context changed".into()); }
                    if k > rem || buf[3..n] != pdu[cl..cl + k] { return Some("intermediate payload".into()); }
                    match &prev { Ok(pv) if pv.pkt_len() as usize == n && pv.pdu_len() == k && format!("{:?}", pv.pkt_type()) == "IntermediateFragPkt" => {}, other => return Some(format!("preview disagrees: {:?}", other)) }
                }
            }
            None
        }
    }
}
fn g_frag() -> Vec<P> {
    let mut v = vec![];
    for &pl in SIZES { if pl > 65535 { continue; } for d in [0i64, 1, 2, 3, 4, 5, 7, 100, 4085, 4088, 4089, 4090, 4091, 4092, 4094, 4095, 4096, 5000, 60000] {
        let cl = pl - d; if cl < 0 { continue; }
        for &bl in SIZES { v.push(vec![pl, cl, bl]); }
    } }
    for &pl in SMALL { v.push(vec![pl, pl + 1, 100]); }
    v
}

// ----------------------------------------------------------------------------------------------------------------
// 3. whole transfer: [pdu_len, label_kind, first_buf, next_buf, storage, sent_before, frag_id, slots]
fn s_transfer(p: &P) -> Option<String> {
    let (pl, lk, b0, b1, storage, before, fid, slots) = (p[0] as usize, p[1], p[2] as usize, p[3] as usize, p[4] as usize, p[5] != 0, p[6] as u8, p[7] as usize);
    let label = label_of(lk);
    let pdu = pdu_of(pl);
    let mut e = enc();
    let mut d = dec(slots, storage, 2);
    if before {
        let mut big = vec![0u8; 64];
        if let Ok(EncapStatus::CompletedPkt(n)) = e.encap(&[1, 2, 3], 9, EncapMetadata::new(0x0800, label), &mut big) {
            match d.decap(&big[..n as usize]) { Ok((DecapStatus::CompletedPkt(b, _), _)) => { let _ = d.provision_storage(b); } _ => return Some("priming packet not delivered".into()) }
        }
    }
    let mut pkts: Vec<Vec<u8>> = vec![];
    let mut buf = vec![0u8; b0];
    let mut st = match no_panic(|| e.encap(&pdu, fid, EncapMetadata::new(0x0800, label), &mut buf)) { Ok(Ok(s)) => s, Ok(Err(_)) => return None, Err(_) => return Some("encap panicked".into()) };
    let mut guard = 0;
    loop {
        match st {
            EncapStatus::CompletedPkt(n) => { pkts.push(buf[..n as usize].to_vec()); break; }
            EncapStatus::FragmentedPkt(n, c) => {
                pkts.push(buf[..n as usize].to_vec());
                buf = vec![0u8; b1];
                st = match no_panic(|| e.encap_frag(&pdu, &c, &mut buf)) { Ok(Ok(s)) => s, Ok(Err(_)) => return if b1 >= 7 { Some("continuation refused a buffer >= 7".into()) } else { None }, Err(_) => return Some("encap_frag panicked".into()) };
            }
        }
        guard += 1; if guard > pl + 5 { return Some("transfer does not finish within remaining+1 calls".into()); }
    }
    let expect_label = if lk == 3 { return None } else { label };
    for (i, pk) in pkts.iter().enumerate() {
        let last = i + 1 == pkts.len();
        match no_panic(|| d.decap(pk)) {
            Err(_) => return Some(format!("decap panicked on packet {i}")),
            Ok(Ok((DecapStatus::CompletedPkt(b, md), n))) => {
                if !last { return Some("completed before the last packet".into()); }
                if n != pk.len() { return Some(format!("consumed {n} of {}", pk.len())); }
                if md.pdu_len() != pl || b[..pl] != pdu[..] { return Some("delivered PDU differs from the original".into()); }
                if md.protocol_type() != 0x0800 || md.label() != expect_label { return Some(format!("delivered metadata {:?}", md)); }
            }
            Ok(Ok((DecapStatus::FragmentedPkt(md), n))) => {
                if last { return Some("no completed PDU at the last packet".into()); }
                if n != pk.len() { return Some(format!("consumed {n} of {}", pk.len())); }
                if md.protocol_type() != 0x0800 || md.label() != expect_label { return Some(format!("fragment metadata {:?}", md)); }
            }
            Ok(Ok((DecapStatus::Padding, _))) => return Some("packet read as padding".into()),
            Ok(Err((err, _))) => return Some(format!("packet {i} of {} rejected: {:?}", pkts.len(), err)),
        }
    }
    None
}
fn g_transfer() -> Vec<P> {
    let mut v = vec![];
    for &pl in &[0i64, 1, 2, 5, 13, 30, 100, 4087, 4088, 4089, 4090, 4091, 4093, 4094, 4095, 4096, 5000, 12267, 12268, 65525, 65533] {
        for lk in [0i64, 1, 2, 5] { for &(b0, b1) in &[(13i64, 13i64), (14, 7), (20, 8), (100, 100), (4097, 4097), (4098, 4098), (4500, 4500), (70000, 70000), (13, 70000), (4097, 13)] {
            for before in [0i64, 1] { if before == 1 && lk > 1 { continue; }
                for &(fid, slots) in &[(0i64, 1i64), (7, 4)] { v.push(vec![pl, lk, b0, b1, 70000.max(pl), before, fid, slots]); v.push(vec![pl, lk, b0, b1, pl.max(16), before, fid, slots]); } } } } }
    v
}

// ----------------------------------------------------------------------------------------------------------------
// 4. decap on short / truncated buffers: [b0, b1, len, fill, state]
fn s_decap_bytes(p: &P) -> Option<String> {
    let (b0, b1, len, fill, state) = (p[0] as u8, p[1] as u8, p[2] as usize, p[3] as u8, p[4]);
    let mut d = dec(2, 64, 2);
    if state >= 1 { let mut f = vec![0xA0, 9, fill, 0, 40, 0x08, 0x00]; f.extend_from_slice(&[1u8; 4]); let _ = d.decap(&f); }
    if state >= 2 { let _ = d.decap(&[0xD0, 6, 0x08, 0x00, 1, 2, 3, 9]); }
    let mut buf = vec![b0, b1]; buf.truncate(len); while buf.len() < len { buf.push(fill); }
    match no_panic(|| d.decap(&buf)) {
        Err(_) => Some("decap panicked".into()),
        Ok(r) => { let n = match r { Ok((_, n)) => n, Err((_, n)) => n };
            if n > buf.len() { Some(format!("consumed {n} of {}", buf.len())) } else if !buf.is_empty() && n < buf.len().min(2) { Some(format!("consumed only {n}")) } else {
                match no_panic(|| d.get_label_or_frag_id(&buf)) { Err(_) => Some("get_label_or_frag_id panicked".into()), Ok(_) => None } } }
    }
}
fn g_decap_bytes() -> Vec<P> {
    let mut v = vec![];
    for hi in 0..16i64 { for lo in [0i64, 1, 2, 3, 4, 5, 6, 7, 8, 9, 10, 11, 12, 13, 20] { for len in 0..16i64 { for fill in [0i64, 1, 2, 0xFF] { for st in [0i64, 1, 2] {
        v.push(vec![hi << 4, lo, len, fill, st]);
    } } } } }
    v
}

// ----------------------------------------------------------------------------------------------------------------
// 5. receiver histories over a packet alphabet: [slots, a, b, c]  -- conservation (C08), isolation (C07), recovery (C16), totality (C05)
fn crc_for(pdu: &[u8], pt: u16, total: u16, lab: &[u8]) -> u32 { (DefaultCrc {}).calculate_crc32(pdu, pt, total, lab) }
fn alphabet(id: i64) -> Vec<u8> {
    let first = |fid: u8, total: u16, n: usize| { let mut f = vec![0xA0, (5 + n) as u8, fid]; f.extend_from_slice(&total.to_be_bytes()); f.extend_from_slice(&[0x08, 0x00]); f.extend(std::iter::repeat(7u8).take(n)); f };
    let inter = |fid: u8, n: usize| { let mut f = vec![0x30, (1 + n) as u8, fid]; f.extend(std::iter::repeat(8u8).take(n)); f };
    let end = |fid: u8, n: usize, crc: u32| { let mut f = vec![0x70, (5 + n) as u8, fid]; f.extend(std::iter::repeat(9u8).take(n)); f.extend_from_slice(&crc.to_be_bytes()); f };
    match id {
        0 => vec![0xE0, 6, 0x08, 0x00, 1, 2, 3, 4],                         // complete, broadcast
        1 => vec![0xF0, 4, 0x08, 0x00, 1, 2],                               // complete, re-use (no label remembered at first)
        2 => vec![0xD0, 7, 0x08, 0x00, 7, 8, 9, 1, 2],                      // complete, 3-byte label
        3 => first(1, 14, 4),                                               // first fragment id 1: total 14 = 12 + 2
        4 => first(3, 14, 4),                                               // aliases id 1 in a 2-slot memory
        5 => first(1, 4000, 30),                                            // larger than the 16-byte storage
        6 => inter(1, 4),
        7 => inter(3, 4),                                                   // stray / aliasing id
        8 => inter(1, 40),                                                  // oversize
        9 => { let pdu: Vec<u8> = [7u8; 4].iter().chain([8u8; 4].iter()).chain([9u8; 4].iter()).cloned().collect(); end(1, 4, crc_for(&pdu, 0x0800, 14, &[])) } // valid after 3,6
        10 => end(1, 4, 0xDEADBEEF),                                        // bad CRC
        11 => end(3, 4, 0),                                                 // unknown / aliasing id
        12 => vec![0xC0, 8, 0x08, 0x00, 0, 0, 0, 0, 0, 0],                  // zero label
        13 => vec![0xE0, 5, 0x00, 0x05, 1, 2, 3],                           // unknown mandatory extension
        14 => vec![0, 0, 0, 0],                                             // padding
        _ => vec![0xE0, 40, 0x08, 0x00, 1],                                 // truncated
    }
}
const NALPHA: i64 = 16;
fn drain(d: &mut Dec) -> usize {
    let mut n = 0;
    while let Ok(_) = d.new_pdu() { n += 1; if n > 100 { break; } }
    for f in 0..=255u8 { if d.memory.take_frag(f).is_ok() { n += 1; } }
    n
}
fn s_history(p: &P) -> Option<String> {
    let slots = p[0] as usize;
    let mut d = dec(slots, 16, 3);
    let provisioned = 3usize;
    let mut out = 0usize;
    for &a in &p[1..] {
        let pk = alphabet(a);
        match no_panic(|| d.decap(&pk)) {
            Err(_) => return Some(format!("decap panicked on packet kind {a}")),
            Ok(Ok((DecapStatus::CompletedPkt(_, _), _))) => out += 1,
            Ok(Err((DecapError::ErrorMemory(DecapMemoryError::StorageOverflow(_)), _))) | Ok(Err((DecapError::ErrorMemory(DecapMemoryError::BufferTooSmall(_)), _))) => out += 1,
            Ok(r) => { let n = match r { Ok((_, n)) => n, Err((_, n)) => n }; if n > pk.len() || n < pk.len().min(2) { return Some(format!("consumed {n} of {}", pk.len())); } }
        }
    }
    // isolation: id 1 opened by kind 3 and never touched by another kind-1 packet must still be there
    let opened = p[1..].iter().position(|&a| a == 3);
    if let Some(i) = opened {
        let later = &p[1 + i + 1..];
        let touched = later.iter().any(|&a| matches!(a, 3 | 5 | 6 | 8 | 9 | 10) || (a == 4 && slots <= 2));
        if !touched { if d.memory.take_frag(1).is_err() { return Some("reassembly of id 1 destroyed by packets of other ids".into()); } else { out += 1; } }
    }
    let got = drain(&mut d);
    if got + out != provisioned { return Some(format!("{provisioned} buffers provisioned, {} accounted for", got + out)); }
    None
}
fn s_recover(p: &P) -> Option<String> {
    let slots = p[0] as usize;
    let mut d = dec(slots, 16, 3);
    for &a in &p[1..] { let pk = alphabet(a); if no_panic(|| d.decap(&pk).is_ok()).is_err() { return Some("decap panicked".into()); } }
    d.reset_last_label();
    let _ = d.provision_storage(vec![0u8; 16].into_boxed_slice());
    match d.decap(&alphabet(2)) { Ok((DecapStatus::CompletedPkt(b, md), 9)) if md.pdu_len() == 2 && b[..2] == [1, 2] && md.label() == Label::ThreeBytesLabel([7, 8, 9]) => { let _ = d.provision_storage(b); }
        other => return Some(format!("probe complete packet not delivered after the history: {:?}", other.map(|x| x.1).map_err(|x| x.0))) }
    for id in [3i64, 6, 9] {
        match d.decap(&alphabet(id)) { Ok(_) => {}, Err((e, _)) => return Some(format!("probe fragmented transfer on id 1 refused after the history: {:?}", e)) }
    }
    None
}
fn g_history() -> Vec<P> {
    let mut v = vec![];
    for slots in [1i64, 2, 4] { for a in 0..NALPHA { for b in 0..NALPHA { v.push(vec![slots, a, b]); for c in 0..NALPHA { v.push(vec![slots, a, b, c]); } } } }
    v
}

// ----------------------------------------------------------------------------------------------------------------
// 6. header codec: [word]
fn s_codec(p: &P) -> Option<String> {
    let w = p[0] as u16;
    match no_panic(|| read_gse_header(w)) {
        Err(_) => Some("read_gse_header panicked".into()),
        Ok(None) => if w >> 12 == 0 { None } else { Some("non-padding word decodes to no packet".into()) },
        Ok(Some((len, k, t))) => { if w >> 12 == 0 { return Some("padding word decodes to a packet".into()); }
            if len > 4095 || generate_gse_header(&k, &t, len as u16) != w { Some("re-encoding does not reproduce the word".into()) } else { None } }
    }
}

// ----------------------------------------------------------------------------------------------------------------
// 7. bundled memory against a model: [slots, op, op, ...] with op = kind * 16 + id
fn s_memory(p: &P) -> Option<String> {
    let slots = p[0] as usize;
    let mut m = SimpleGseMemory::new(slots, 8, 0, 0);
    let mut free: Vec<u8> = vec![];
    let mut slot: Vec<Option<(u8, u8)>> = vec![None; slots];
    let mut tag = 1u8;
    let cap = match std::panic::catch_unwind(|| { let mut m = SimpleGseMemory::new(slots, 8, 0, 0); let mut n = 0; while m.provision_storage(vec![0u8; 8].into_boxed_slice()).is_ok() { n += 1; if n > 64 { break; } } n }) { Ok(n) => n, Err(_) => return Some("panic".into()) };
    let ctx = |fid: u8| DecapContext::new(Label::Broadcast, 0x0800, fid, 100, 0, false, vec![]);
    for &op in &p[1..] {
        let (kind, id) = (op / 16, (op % 16) as u8);
        let r = no_panic(|| match kind {
            0 => { let size = if id == 0 { 4 } else { 8 }; let mut b = vec![0u8; size].into_boxed_slice(); b[0] = tag;
                   match m.provision_storage(b) { Ok(()) => { if size < 8 || free.len() >= cap { return Some("provision accepted a buffer it must refuse".to_string()); } free.push(tag); tag += 1; None }
                       Err(DecapMemoryError::StorageOverflow(b)) => if free.len() < cap || b[0] != tag { Some("StorageOverflow with room / other buffer handed back".into()) } else { None },
                       Err(DecapMemoryError::BufferTooSmall(b)) => if size >= 8 || b[0] != tag { Some("BufferTooSmall for a large enough buffer".into()) } else { None },
                       Err(e) => Some(format!("unexpected {:?}", e)) } }
            1 => match m.new_pdu() { Ok(b) => match free.pop() { Some(t) if t == b[0] => None, _ => Some("new_pdu returned a buffer that was not free".into()) },
                                    Err(DecapMemoryError::StorageUnderflow) => if free.is_empty() { None } else { Some("new_pdu failed with a free buffer".into()) }, Err(e) => Some(format!("unexpected {:?}", e)) },
            2 => { if slots == 0 { return match m.new_frag(ctx(id)) { Err(_) => None, Ok(_) => Some("new_frag on a memory without slots".into()) }; }
                   let i = id as usize % slots; let old = slot[i].take();
                   match m.new_frag(ctx(id)) { Ok((c, b)) => { if c.frag_id != id { return Some("new_frag returned another context".into()); }
                           match old { Some((_, t)) => if b[0] != t { return Some("new_frag did not reuse the slot's buffer".into()); }, None => match free.pop() { Some(t) if t == b[0] => {}, _ => return Some("new_frag took a buffer that was not free".into()) } }
                           // the caller now owns (c, b); put it back so the model stays simple
                           let t = b[0]; match m.save_frag((c, b)) { Ok(()) => { slot[i] = Some((id, t)); None }, Err(e) => Some(format!("save_frag into the freed slot refused: {:?}", e)) } }
                       Err(DecapMemoryError::StorageUnderflow) => { if old.is_some() || !free.is_empty() { Some("new_frag failed although a buffer was available".into()) } else { None } }
                       Err(e) => Some(format!("unexpected {:?}", e)) } }
            3 => { if slots == 0 { return match m.take_frag(id) { Err(DecapMemoryError::UndefinedId) => None, _ => Some("take_frag on a memory without slots".into()) }; }
                   let i = id as usize % slots;
                   match m.take_frag(id) { Ok((c, b)) => match slot[i] { Some((f, t)) if f == id && c.frag_id == id && b[0] == t => { match m.save_frag((c, b)) { Ok(()) => None, Err(_) => Some("save_frag after take_frag refused".into()) } }, _ => Some("take_frag returned a context that was not saved under this id".into()) },
                       Err(DecapMemoryError::UndefinedId) => match slot[i] { Some((f, _)) if f == id => Some("take_frag lost a saved context".into()), _ => None },
                       Err(e) => Some(format!("unexpected {:?}", e)) } }
            _ => { if slots == 0 { return None; } let i = id as usize % slots;
                   let b = { let mut b = vec![0u8; 8].into_boxed_slice(); b[0] = 200; b };
                   match m.save_frag((ctx(id), b)) { Ok(()) => if slot[i].is_some() { Some("save_frag into an occupied slot accepted".into()) } else { slot[i] = Some((id, 200)); None },
                       Err(DecapMemoryError::MemoryCorrupted) => if slot[i].is_none() { Some("save_frag into a free slot refused".into()) } else { None }, Err(e) => Some(format!("unexpected {:?}", e)) } }
        });
        match r { Err(_) => return Some("memory operation panicked".into()), Ok(Some(m)) => return Some(m), Ok(None) => {} }
        // the model's view of every slot must be retrievable: checked lazily by later take_frag operations
    }
    None
}
fn g_memory() -> Vec<P> {
    let ops: Vec<i64> = vec![0 * 16 + 1, 0 * 16, 16, 2 * 16 + 1, 2 * 16 + 3, 2 * 16 + 2, 3 * 16 + 1, 3 * 16 + 3, 3 * 16 + 2, 4 * 16 + 1, 4 * 16 + 3];
    let mut v = vec![];
    for slots in [1i64, 2, 3, 4, 0] { for &a in &ops { for &b in &ops { for &c in &ops { v.push(vec![slots, 1, 1, a, b, c]); for &d in &[2 * 16 + 1, 3 * 16 + 1, 3 * 16 + 3, 16] { v.push(vec![slots, 1, 1, 1, 1, 1, a, b, c, d]); } } } } }
    v
}

// ----------------------------------------------------------------------------------------------------------------
// 8. peek vs decap on encapsulator packets: [pdu_len, label_kind, buf_len, sent_before, trailing]
fn s_peek(p: &P) -> Option<String> {
    let (pl, lk, bl, before, trailing) = (p[0] as usize, p[1], p[2] as usize, p[3] != 0, p[4] as usize);
    let label = label_of(lk); let pdu = pdu_of(pl);
    let mut e = enc(); let mut d = dec(2, 70000, 2);
    if before { let mut big = vec![0u8; 64]; if let Ok(EncapStatus::CompletedPkt(n)) = e.encap(&[1], 9, EncapMetadata::new(0x0800, label), &mut big) { if let Ok((DecapStatus::CompletedPkt(b, _), _)) = d.decap(&big[..n as usize]) { let _ = d.provision_storage(b); } } }
    let mut buf = vec![0u8; bl];
    let st = match e.encap(&pdu, 6, EncapMetadata::new(0x0800, label), &mut buf) { Ok(s) => s, Err(_) => return None };
    let mut pkts = vec![];
    let mut cur = st;
    loop { match cur { EncapStatus::CompletedPkt(n) => { pkts.push(buf[..n as usize].to_vec()); break; }
        EncapStatus::FragmentedPkt(n, c) => { pkts.push(buf[..n as usize].to_vec()); buf = vec![0u8; bl.max(8)]; cur = match e.encap_frag(&pdu, &c, &mut buf) { Ok(s) => s, Err(_) => return None }; } }
        if pkts.len() > 70000 { return None; } }
    for (i, pk) in pkts.iter().enumerate() {
        let mut shown = pk.clone(); shown.extend(std::iter::repeat(0xEEu8).take(trailing));
        let peek = match no_panic(|| d.get_label_or_frag_id(&shown)) { Ok(r) => r, Err(_) => return Some("get_label_or_frag_id panicked".into()) };
        let res = d.decap(&shown);
        let h = parse_hdr(pk)?;
        if !h.s { match peek { Ok(LabelorFragId::FragId(6)) => {}, other => return Some(format!("continuation packet {i}: peek answered {:?}", other)) } }
        else {
            let md = match &res { Ok((DecapStatus::CompletedPkt(_, md), _)) => md.clone(), Ok((DecapStatus::FragmentedPkt(md), _)) => md.clone(), other => return Some(format!("packet {i} not accepted: {:?}", other.as_ref().map(|x| x.1).map_err(|x| &x.0))) };
            match peek { Ok(LabelorFragId::Lbl(l)) => if h.lt == 3 || l != md.label() { return Some(format!("peek label {:?} vs decap label {:?}", l, md.label())); },
                Err(GetLabelorFragIdError::ErrLabelReuse) => if h.lt != 3 { return Some("re-use error for a packet carrying its label".into()); },
                other => return Some(format!("start/complete packet: peek answered {:?}", other)) }
        }
        if let Ok((DecapStatus::CompletedPkt(b, _), _)) = res { let _ = d.provision_storage(b); }
    }
    None
}
fn g_peek() -> Vec<P> {
    let mut v = vec![];
    for &pl in &[0i64, 1, 2, 3, 10, 100, 5000] { for lk in [0i64, 1, 2] { for &bl in &[11i64, 13, 14, 17, 20, 100, 4097, 6000] { for before in [0i64, 1] { for tr in [0i64, 1, 5] { if before == 1 && lk == 2 { continue; } v.push(vec![pl, lk, bl, before, tr]); } } } } }
    v
}

// ----------------------------------------------------------------------------------------------------------------
// 9. utils structs: [kind, pdu_len, label_kind, ptype, total]
fn s_utils(p: &P) -> Option<String> {
    let (kind, pl, lk, pt, total) = (p[0], p[1] as usize, p[2], p[3] as u16, p[4] as u16);
    let label = label_of(lk); let lb = lbytes(&label); let pdu = pdu_of(pl);
    let mut buf = vec![0u8; pl + 32];
    no_panic(|| match kind {
        0 => { let x = GseCompletePacket::new((2 + lb.len() + pl) as u16, pt, label, &pdu); x.generate(&mut buf);
               let n = 4 + lb.len() + pl;
               let mut exp = generate_gse_header(&dvb_gse_rust::gse_decap::read_gse_header(0xC000).unwrap().1, &label.get_type(), (n - 2) as u16).to_be_bytes().to_vec(); exp.extend_from_slice(&pt.to_be_bytes()); exp.extend_from_slice(&lb); exp.extend_from_slice(&pdu);
               if buf[..n] != exp[..] { return Some("generated complete packet differs from the wire format".to_string()); }
               // the encapsulator emits the same bytes for the same fields (re-use disabled: the label is written as given)
               if pt >= 0x600 && lk != 3 { let mut e = enc(); e.disable_re_use_label(); let mut eb = vec![0u8; n];
                   match e.encap(&pdu, 7, EncapMetadata::new(pt, label), &mut eb) { Ok(EncapStatus::CompletedPkt(k)) if k as usize == n && eb[..n] == buf[..n] => {}
                       other => return Some(format!("encapsulator does not emit the generated complete packet: {:?}", other)) } }
               match GseCompletePacket::parse(&buf[..n]) { Ok(y) if y == x => None, other => Some(format!("parse(generate(x)) = {:?}", other)) } }
        1 => { let x = GseFirstFragPacket::new((5 + lb.len() + pl) as u16, 7, total, pt, label, &pdu); x.generate(&mut buf);
               let n = 7 + lb.len() + pl;
               if buf[2] != 7 || buf[3..5] != total.to_be_bytes() || buf[5..7] != pt.to_be_bytes() || buf[7..7 + lb.len()] != lb[..] || buf[7 + lb.len()..n] != pdu[..] { return Some("generated first fragment differs from the wire format".to_string()); }
               // the encapsulator emits the same first fragment when the PDU is longer than what the buffer takes
               if pt >= 0x600 && lk != 3 && pl <= 60 { let mut e = enc(); e.disable_re_use_label(); let mut eb = vec![0u8; n]; let big = pdu_of(pl + 40);
                   let t2 = (big.len() + 2 + lb.len()) as u16;
                   let x2 = GseFirstFragPacket::new((5 + lb.len() + pl) as u16, 7, t2, pt, label, &big[..pl]); let mut b2 = vec![0u8; n + 8]; x2.generate(&mut b2);
                   match e.encap(&big, 7, EncapMetadata::new(pt, label), &mut eb) { Ok(EncapStatus::FragmentedPkt(k, _)) if k as usize == n && eb[..n] == b2[..n] => {}
                       other => return Some(format!("encapsulator does not emit the generated first fragment: {:?}", other.map(|_| ()))) } }
               match GseFirstFragPacket::parse(&buf[..n]) { Ok(y) if y == x => None, other => Some(format!("parse(generate(x)) = {:?}", other)) } }
        2 => { let x = GseIntermediatePacket::new((1 + pl) as u16, 7, &pdu); x.generate(&mut buf); let n = 3 + pl;
               if buf[2] != 7 || buf[3..n] != pdu[..] { return Some("generated intermediate fragment differs".to_string()); }
               match GseIntermediatePacket::parse(&buf[..n]) { Ok(y) if y == x => None, other => Some(format!("parse(generate(x)) = {:?}", other)) } }
        _ => { let x = GseEndFragPacket::new((5 + pl) as u16, 7, &pdu, 0x01020304); x.generate(&mut buf); let n = 7 + pl;
               if buf[2] != 7 || buf[3..3 + pl] != pdu[..] || buf[3 + pl..n] != [1, 2, 3, 4] { return Some("generated end fragment differs".to_string()); }
               match GseEndFragPacket::parse(&buf[..n]) { Ok(y) if y == x => None, other => Some(format!("parse(generate(x)) = {:?}", other)) } }
    }).unwrap_or(Some("utils panicked on a well-formed description".into()))
}
fn g_utils() -> Vec<P> {
    let mut v = vec![];
    for kind in 0..4i64 { for &pl in &[0i64, 1, 2, 10, 100, 4000] { for lk in [0i64, 1, 2, 3, 5] { for &pt in &[0x0600i64, 0x0800, 0xFFFF] { for &total in &[10i64, 4095, 4096, 5002, 65535] { v.push(vec![kind, pl, lk, pt, total]); } } } } }
    v
}

// 9b. utils descriptions fed to the decapsulator: [first_len, inter_len, end_len, label_kind(0,1,2 ; 10,11 = re-use after a 6B / 3B packet), ptype]
fn s_utils_decap(p: &P) -> Option<String> {
    let (n1, n2, n3, lk, pt) = (p[0] as usize, p[1] as usize, p[2] as usize, p[3], p[4] as u16);
    let full = label_of(lk % 10); let lb = lbytes(&full);
    let wire = if lk >= 10 { Label::ReUse } else { full };
    let wl = lbytes(&wire);
    let pdu = pdu_of(n1 + n2 + n3);
    let total = (pdu.len() + 2 + wl.len()) as u16;
    let mut d = dec(2, 200, 3);
    let mut buf = vec![0u8; 400];
    no_panic(|| {
        {
            let x = GseCompletePacket::new((2 + lb.len() + 3) as u16, pt, full, &[9, 9, 9]); x.generate(&mut buf);
            match d.decap(&buf[..4 + lb.len() + 3]) { Ok((DecapStatus::CompletedPkt(b, md), _)) => { if md.label() != full { return Some("complete packet: wrong label".to_string()); } let _ = d.provision_storage(b); }
                other => return Some(format!("decapsulator does not accept the generated complete packet: {:?}", other.map(|_| ()).map_err(|e| e.0))) }
        }
        let crc = crc_for(&pdu, pt, total, &wl);
        let x = GseFirstFragPacket::new((5 + wl.len() + n1) as u16, 7, total, pt, wire, &pdu[..n1]); x.generate(&mut buf);
        match d.decap(&buf[..7 + wl.len() + n1]) { Ok((DecapStatus::FragmentedPkt(md), n)) => { if md.label() != full || md.protocol_type() != pt || n != 7 + wl.len() + n1 { return Some("first fragment accepted with other field values".to_string()); } }
            other => return Some(format!("decapsulator does not accept the generated first fragment: {:?}", other.map(|_| ()).map_err(|e| e.0))) }
        let x = GseIntermediatePacket::new((1 + n2) as u16, 7, &pdu[n1..n1 + n2]); x.generate(&mut buf);
        match d.decap(&buf[..3 + n2]) { Ok((DecapStatus::FragmentedPkt(md), n)) => { if md.label() != full || md.protocol_type() != pt || n != 3 + n2 { return Some("intermediate fragment accepted with other field values".to_string()); } }
            other => return Some(format!("decapsulator does not accept the generated intermediate fragment: {:?}", other.map(|_| ()).map_err(|e| e.0))) }
        let x = GseEndFragPacket::new((5 + n3) as u16, 7, &pdu[n1 + n2..], crc); x.generate(&mut buf);
        match d.decap(&buf[..7 + n3]) { Ok((DecapStatus::CompletedPkt(b, md), n)) => { if md.label() != full || md.protocol_type() != pt || n != 7 + n3 || md.pdu_len() != pdu.len() || b[..pdu.len()] != pdu[..] { return Some("end fragment accepted with other field values".to_string()); } None }
            other => Some(format!("decapsulator does not accept the generated end fragment: {:?}", other.map(|_| ()).map_err(|e| e.0))) }
    }).unwrap_or(Some("panicked on a well-formed description".into()))
}
fn g_utils_decap() -> Vec<P> {
    let mut v = vec![];
    for lk in [0i64, 1, 2, 5, 10, 11] { for &n1 in &[0i64, 1, 2, 5, 17] { for &n2 in &[1i64, 4, 9, 30] { for n3 in 0..=9i64 { for &pt in &[0x0600i64, 0xFFFF] { v.push(vec![n1, n2, n3, lk, pt]); } } } } }
    v
}

// ----------------------------------------------------------------------------------------------------------------
// 10. extension constructor: [id, data_len]   and encap_ext round trip: [ptype, pdu_len, buf_len, chain selector, sent_before]
fn s_ext_new(p: &P) -> Option<String> {
    let (id, n) = (p[0] as u16, p[1] as usize);
    let data = vec![0xABu8; n];
    match no_panic(|| Extension::new(id, &data)) {
        Err(_) => Some("Extension::new panicked".into()),
        Ok(r) => { let table = [None, Some(0usize), Some(2), Some(4), Some(6), Some(8)];
            let ok = id < 0x600 && (id < 0x100 || table[(id >> 8) as usize] == Some(n));
            if r.is_ok() != ok { Some(format!("Extension::new({:#x}, {n} bytes) is_ok = {}", id, r.is_ok())) } else { None } }
    }
}
fn s_ext_rt(p: &P) -> Option<String> {
    use dvb_gse_rust::header_extension::{MandatoryHeaderExt, MandatoryHeaderExtensionManager};
    struct Mgr; impl MandatoryHeaderExtensionManager for Mgr { fn is_mandatory_header_id_known(&self, id: u16) -> MandatoryHeaderExt { match id { 0x50 => MandatoryHeaderExt::Final(3), 0x51 => MandatoryHeaderExt::NonFinal(2), _ => MandatoryHeaderExt::Unknown } } }
    let (pt, pl, bl, sel, before) = (p[0] as u16, p[1] as usize, p[2] as usize, p[3], p[4] != 0);
    let mk = |id: u16, n: usize| Extension::new(id, &vec![0xC0 + n as u8; n]).unwrap();
    let chain: Vec<Extension> = match sel { 0 => vec![mk(0x100, 0)], 1 => vec![mk(0x200, 2)], 2 => vec![mk(0x300, 4), mk(0x500, 8)], 3 => vec![mk(0x51, 2), mk(0x400, 6)], 4 => vec![mk(0x200, 2), mk(0x50, 3)], 5 => vec![mk(0x50, 3)], _ => vec![mk(0x100, 0), mk(0x200, 2), mk(0x51, 2), mk(0x300, 4)] };
    // hypothesis of the round trip: the receiver's manager agrees with the sender on finality (0x50 is final: it must be the protocol type)
    if chain.iter().any(|x| x.id() == 0x50) && pt != 0x50 { return None; }
    let label = Label::ThreeBytesLabel([7, 8, 9]); let pdu = pdu_of(pl);
    let mut e = enc();
    let mut m = SimpleGseMemory::new(2, 70000, 0, 0); for _ in 0..2 { let _ = m.provision_storage(vec![0u8; 70000].into_boxed_slice()); }
    let mut d = Decapsulator::new(m, DefaultCrc {}, Mgr);
    if before { let mut big = vec![0u8; 64]; if let Ok(EncapStatus::CompletedPkt(n)) = e.encap(&[1], 9, EncapMetadata::new(0x0800, label), &mut big) { if let Ok((DecapStatus::CompletedPkt(b, _), _)) = d.decap(&big[..n as usize]) { let _ = d.provision_storage(b); } } }
    let snap = e.clone();
    let mut buf: Vec<u8> = (0..bl).map(|i| i as u8 ^ 0x77).collect(); let orig = buf.clone();
    let res = match no_panic(|| e.encap_ext(&pdu, 4, EncapMetadata::new(pt, label), &mut buf, chain.clone())) { Ok(r) => r, Err(_) => return Some("encap_ext panicked".into()) };
    let st = match res { Err(_) => { if buf != orig { return Some("Err but the buffer was modified".into()); } if e != snap { return Some("Err but the encapsulator state changed".into()); } return None; } Ok(s) => s };
    let last = chain.last().unwrap();
    if pt < 0x100 && !(last.id() == pt && last.id() < 0x100) { return Some("undecodable combination accepted".into()); }
    let mut pkts = vec![]; let mut cur = st;
    loop { match cur { EncapStatus::CompletedPkt(n) => { pkts.push(buf[..n as usize].to_vec()); break; }
        EncapStatus::FragmentedPkt(n, c) => { let n = n as usize; if n > bl { return Some("reported length exceeds the buffer".into()); }
            pkts.push(buf[..n].to_vec()); buf = vec![0u8; bl.max(8)]; cur = match e.encap_frag(&pdu, &c, &mut buf) { Ok(s) => s, Err(_) => return None }; } }
        if pkts.len() > 70000 { return None; } }
    let h = parse_hdr(&pkts[0])?; if h.gse_len + 2 != pkts[0].len() { return Some(format!("reported length {} but GSE length + 2 = {}", pkts[0].len(), h.gse_len + 2)); }
    for (i, pk) in pkts.iter().enumerate() {
        match no_panic(|| d.decap(pk)) { Err(_) => return Some("decap panicked".into()),
            Ok(Ok((DecapStatus::CompletedPkt(b, md), n))) => { if i + 1 != pkts.len() || n != pk.len() { return Some("completed at the wrong packet / wrong consumed length".into()); }
                if md.pdu_len() != pl || b[..pl] != pdu[..] { return Some("PDU differs after the extension round trip".into()); }
                if md.extensions() != &chain { return Some(format!("extension list differs: {:?}", md.extensions())); }
                if md.protocol_type() != pt || md.label() != label { return Some("protocol type / label differs".into()); } }
            Ok(Ok((DecapStatus::FragmentedPkt(_), n))) => if n != pk.len() { return Some("consumed length".into()); },
            Ok(Ok(_)) => return Some("padding".into()),
            Ok(Err((er, _))) => return Some(format!("packet {i} rejected: {:?}", er)) }
    }
    None
}
fn g_ext_new() -> Vec<P> { let mut v = vec![]; for id in 0..=0xFFFFi64 { if id < 0x700 || id % 257 == 0 { for n in 0..=10i64 { v.push(vec![id, n]); } } } v }
fn g_ext_rt() -> Vec<P> {
    let mut v = vec![];
    for sel in 0..7i64 { for &pt in &[0x0800i64, 0x50, 0x51, 0x100] { for &pl in &[0i64, 1, 5, 40, 5000] { for &bl in &[12i64, 20, 24, 30, 40, 60, 4097, 8000] { for before in [0i64, 1] { v.push(vec![pt, pl, bl, sel, before]); } } } } }
    v
}

// ----------------------------------------------------------------------------------------------------------------
// 11. label policy histories, sender and receiver in lock step: [op, op, ...]
//     op: 0..3 send label A(6B) / B(6B) / C(3B) / broadcast into a large buffer; 4 explicit re-use; 5 failing send of B (tiny buffer);
//         6 reset both; 7 disable; 8 enable; 9 enable max 1; 10 enable max 2; 11 send A fragmented (first + end); 12 failing send of A via bad ptype
//         13..15 send a label that differs from A in its first byte only / from A in its last byte only / from C in its first byte only
fn s_policy(p: &P) -> Option<String> {
    let labs = [Label::SixBytesLabel([1; 6]), Label::SixBytesLabel([2; 6]), Label::ThreeBytesLabel([3; 3]), Label::Broadcast, Label::ReUse,
                Label::SixBytesLabel([9, 1, 1, 1, 1, 1]), Label::SixBytesLabel([1, 1, 1, 1, 1, 9]), Label::ThreeBytesLabel([9, 3, 3])];
    let mut e = enc(); let mut d = dec(2, 64, 2);
    let (mut enabled, mut maxc, mut run) = (true, 0u32, 0u32);
    let mut prev: Option<Label> = None;       // label carried by the last start/complete packet of this frame
    for &op in p {
        match op {
            0..=4 | 11 | 13..=15 => {
                let label = match op { 11 => labs[0], 13..=15 => labs[op as usize - 8], _ => labs[op as usize] };
                let pdu = pdu_of(20); let mut buf = vec![0u8; if op == 11 { 24 } else { 64 }];
                let st = match no_panic(|| e.encap(&pdu, 1, EncapMetadata::new(0x0800, label), &mut buf)) { Ok(Ok(s)) => s, Ok(Err(er)) => return Some(format!("send refused: {:?}", er)), Err(_) => return Some("encap panicked".into()) };
                let n = match st { EncapStatus::CompletedPkt(n) => n, EncapStatus::FragmentedPkt(n, _) => n } as usize;
                let h = parse_hdr(&buf[..n])?;
                let substituted = h.lt == 3 && lt_of(&label) != 3;
                if substituted {
                    if !enabled { return Some("label replaced by re-use while re-use is disabled".into()); }
                    if !prev.map_or(false, |q| same_label(&q, &label)) { return Some(format!("re-use marker although the preceding start/complete packet carried {:?}", prev)); }
                    run += 1; if maxc > 0 && run > maxc { return Some(format!("{run} consecutive re-use packets with a maximum of {maxc}")); }
                } else if h.lt != 3 { run = 0; }
                // receiver
                let r = d.decap(&buf[..n]);
                let expect = if lt_of(&label) == 3 { prev } else { Some(label) };
                match (&r, expect) {
                    (Ok((DecapStatus::CompletedPkt(_, md), _)), Some(l)) | (Ok((DecapStatus::FragmentedPkt(md), _)), Some(l)) => if !same_label(&md.label(), &l) { return Some(format!("PDU sent with {:?} delivered with {:?}", l, md.label())); },
                    (Ok(_), None) => return Some("explicit re-use delivered although no label precedes it".into()),
                    (Err(_), Some(_)) if lt_of(&label) != 3 => return Some(format!("PDU with label {:?} not delivered: {:?}", label, r.as_ref().err().map(|x| &x.0))),
                    _ => {}
                }
                if let Ok((DecapStatus::CompletedPkt(b, _), _)) = r { let _ = d.provision_storage(b); }
                if let EncapStatus::FragmentedPkt(_, c) = st { let mut b2 = vec![0u8; 64]; if let Ok(EncapStatus::CompletedPkt(m)) = e.encap_frag(&pdu, &c, &mut b2) { if let Ok((DecapStatus::CompletedPkt(b, _), _)) = d.decap(&b2[..m as usize]) { let _ = d.provision_storage(b); } } }
                if h.lt <= 1 { prev = Some(label); } else if h.lt == 2 { prev = None; }
            }
            5 | 12 => { let snap = e.clone(); let mut small = [0u8; 3];
                let r = if op == 5 { e.encap(&[1, 2], 1, EncapMetadata::new(0x0800, labs[1]), &mut small) } else { e.encap(&[1, 2], 1, EncapMetadata::new(0x0200, labs[0]), &mut small) };
                if r.is_ok() { return Some("failing send succeeded".into()); } if e != snap { return Some("failed send changed the encapsulator".into()); } }
            6 => { e.reset_last_label(); d.reset_last_label(); prev = None; run = 0; }
            7 => { e.disable_re_use_label(); enabled = false; maxc = 0; run = 0; }
            8 => { e.enable_re_use_label(); enabled = true; maxc = 0; run = 0; }
            9 => { e.enable_re_use_label_with_max_consecutive(1); enabled = true; maxc = 1; run = 0; }
            10 => { e.enable_re_use_label_with_max_consecutive(2); enabled = true; maxc = 2; run = 0; }
            _ => {}
        }
    }
    None
}
fn g_policy() -> Vec<P> {
    let ops: Vec<i64> = (0..16).collect();
    let mut v = vec![];
    for &a in &ops { for &b in &ops { for &c in &ops { for &d in &ops { v.push(vec![a, b, c, d]); if a == 0 && (b == 0 || b >= 5) { for &x in &[0i64, 1, 4] { v.push(vec![a, b, c, d, x, 0]); } } } } } }
    for n in [254i64, 255] { let mut s = vec![100 + n]; for _ in 0..(n + 3) { s.push(0); } v.push(s); }
    v
}
fn s_policy_max(p: &P) -> Option<String> {
    // [100 + N, then sends of label A]: at most N consecutive re-use packets
    let n = (p[0] - 100) as u8; let mut e = enc(); e.enable_re_use_label_with_max_consecutive(n);
    let mut run = 0u32;
    for _ in &p[1..] { let mut buf = vec![0u8; 32]; let st = e.encap(&[1], 1, EncapMetadata::new(0x0800, Label::SixBytesLabel([1; 6])), &mut buf).ok()?;
        let m = match st { EncapStatus::CompletedPkt(m) => m, EncapStatus::FragmentedPkt(m, _) => m } as usize;
        if parse_hdr(&buf[..m])?.lt == 3 { run += 1; if run > n as u32 { return Some(format!("{run} consecutive re-use packets with a maximum of {n}")); } } else { run = 0; } }
    None
}

// ----------------------------------------------------------------------------------------------------------------
// 12. default CRC: [pdu_len, label_len, total, ptype]
fn s_crc(p: &P) -> Option<String> {
    let (pl, ll, total, pt) = (p[0] as usize, p[1] as usize, p[2] as u16, p[3] as u16);
    let pdu = pdu_of(pl); let lab: Vec<u8> = (0..ll).map(|i| 0x90 + i as u8).collect();
    let mut d = total.to_be_bytes().to_vec(); d.extend_from_slice(&pt.to_be_bytes()); d.extend_from_slice(&lab); d.extend_from_slice(&pdu);
    if (DefaultCrc {}).calculate_crc32(&pdu, pt, total, &lab) != crc_mpeg2(&d) { Some("DefaultCrc differs from CRC-32/MPEG-2 over total length | protocol type | label | PDU".into()) } else { None }
}
fn g_crc() -> Vec<P> {
    let mut v = vec![];
    for &pl in &[0i64, 1, 2, 9, 255, 256, 1000, 4088, 65535] { for ll in [0i64, 3, 6] { for &t in &[0i64, 1, 0x0FFF, 0x1000, 0x1234, 0xFFFF] { for &pt in &[0i64, 0x0800, 0xFFFF] { v.push(vec![pl, ll, t, pt]); } } } }
    v
}

// ----------------------------------------------------------------------------------------------------------------
struct Search { name: &'static str, props: &'static [&'static str], f: fn(&P) -> Option<String>, g: fn() -> Vec<P> }
fn g_codec() -> Vec<P> { (0..=0xFFFFi64).map(|w| vec![w]).collect() }
const SEARCHES: &[Search] = &[
    Search { name: "codec", props: &["C14"], f: s_codec, g: g_codec },
    Search { name: "crc", props: &["C12"], f: s_crc, g: g_crc },
    Search { name: "ext_new", props: &["C13"], f: s_ext_new, g: g_ext_new },
    Search { name: "frag", props: &["C02", "C06", "C09", "C11", "C18"], f: s_frag, g: g_frag },
    Search { name: "enc", props: &["C01", "C02", "C06", "C09", "C11", "C12", "C18", "C04", "C15"], f: s_enc, g: g_enc },
    Search { name: "policy", props: &["C04", "C15", "C09", "C01", "C02"], f: s_policy_dispatch, g: g_policy },
    Search { name: "transfer", props: &["C01", "C02", "C03", "C12", "C11"], f: s_transfer, g: g_transfer },
    Search { name: "decap_bytes", props: &["C05", "C10", "C16"], f: s_decap_bytes, g: g_decap_bytes },
    Search { name: "history", props: &["C05", "C07", "C08", "C03", "C10"], f: s_history, g: g_history },
    Search { name: "recover", props: &["C16", "C04"], f: s_recover, g: g_history },
    Search { name: "memory", props: &["C17", "C07", "C08", "C16"], f: s_memory, g: g_memory },
    Search { name: "peek", props: &["C19"], f: s_peek, g: g_peek },
    Search { name: "utils", props: &["C20"], f: s_utils, g: g_utils },
    Search { name: "utils_decap", props: &["C20", "C02"], f: s_utils_decap, g: g_utils_decap },
    Search { name: "ext_rt", props: &["C13", "C06", "C09", "C12", "C04", "C15"], f: s_ext_rt, g: g_ext_rt },
];
fn s_policy_dispatch(p: &P) -> Option<String> { if !p.is_empty() && p[0] >= 100 { s_policy_max(p) } else { s_policy(p) } }

fn to_json(name: &str, p: &P, msg: &str) -> String {
    format!("{{\"search\":\"{}\",\"params\":[{}],\"observed\":\"{}\"}}", name, p.iter().map(|x| x.to_string()).collect::<Vec<_>>().join(","), msg.replace('\\', "/").replace('"', "'"))
}
pub fn search(pid: &str, _obligations: &[String]) -> Option<String> {
    for s in SEARCHES {
        if !s.props.contains(&pid) { continue; }
        for p in (s.g)() {
            if let Some(msg) = std::panic::catch_unwind(|| (s.f)(&p)).unwrap_or(Some("the replay oracle itself panicked".into())) {
                if msg.contains("oracle itself") { continue; }
                return Some(to_json(s.name, &p, &msg));
            }
        }
    }
    None
}
/// run one named search (bounded stand-in for a clause that is not under contract)
pub fn search_named(name: &str) -> (usize, Option<String>) {
    let mut n = 0;
    if let Some(s) = SEARCHES.iter().find(|s| s.name == name) {
        for p in (s.g)() { n += 1;
            if let Some(msg) = std::panic::catch_unwind(|| (s.f)(&p)).unwrap_or(None) { return (n, Some(to_json(s.name, &p, &msg))); } }
    }
    (n, None)
}
pub fn replay(w: &str) -> Option<String> {
    let name = w.split("\"search\":\"").nth(1)?.split('"').next()?.to_string();
    let params: P = w.split("\"params\":[").nth(1)?.split(']').next()?.split(',').filter(|s| !s.trim().is_empty()).filter_map(|s| s.trim().parse().ok()).collect();
    let s = SEARCHES.iter().find(|s| s.name == name)?;
    std::panic::catch_unwind(|| (s.f)(&params)).ok()?
}
/// self-test: on the unchanged tree no search may report anything
pub fn selftest() -> Vec<String> {
    let mut out = vec![];
    for s in SEARCHES { let mut n = 0; for p in (s.g)() { n += 1; if let Some(m) = (s.f)(&p) { out.push(to_json(s.name, &p, &m)); break; } } eprintln!("search {}: {} cases", s.name, n); }
    out
}
#[allow(dead_code)]
fn _unused() { let _ = drain; }
