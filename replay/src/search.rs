//! Witness searches (boundary lattices) for failed obligations; each returns a JSON description that `replay` re-executes.
pub fn search(_pid: &str, _obligations: &[String]) -> Option<String> {
    None
}
pub fn replay(_w: &str) -> Option<String> {
    None
}
