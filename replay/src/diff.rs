//! Differential execution: the crate under check against the pinned baseline (/verif/baseline), same pseudo-random boundary-biased
//! scenarios through the public API, every observable printed and compared.  Used only to tell a failed PROOF from a changed BEHAVIOUR:
//! it can never create a violation by itself.
pub mod cur { extern crate dvb_gse_rust as gse; include!("trace_body.rs"); }
pub mod base { extern crate dvb_gse_base as gse; include!("trace_body.rs"); }

fn run(f: fn(u64) -> String, seed: u64) -> String {
    match std::panic::catch_unwind(|| f(seed)) { Ok(s) => s, Err(_) => "PANIC".to_string() }
}
/// first seed in [from, from + n) on which the two trees behave differently
pub fn first_difference(from: u64, n: u64) -> Option<(u64, String, String)> {
    for seed in from..from + n {
        let a = run(base::trace, seed);
        let b = run(cur::trace, seed);
        if a != b {
            // cut to the first differing region
            let k = a.bytes().zip(b.bytes()).take_while(|(x, y)| x == y).count();
            let s = k.saturating_sub(120);
            return Some((seed, a.chars().skip(s).take(400).collect(), b.chars().skip(s).take(400).collect()));
        }
    }
    None
}
