//! Independent (plain Rust) reading of the GSE wire format, used only to display witnesses.
use std::panic::{catch_unwind, AssertUnwindSafe};

pub fn no_panic<T>(f: impl FnOnce() -> T) -> Result<T, String> {
    catch_unwind(AssertUnwindSafe(f)).map_err(|_| "panic".to_string())
}

#[derive(Debug, Clone, PartialEq)]
pub struct Parsed {
    pub s: bool,
    pub e: bool,
    pub lt: u8,
    pub gse_len: usize,
}
pub fn parse_hdr(b: &[u8]) -> Option<Parsed> {
    if b.len() < 2 { return None; }
    let w = ((b[0] as u16) << 8) | b[1] as u16;
    Some(Parsed { s: w & 0x8000 != 0, e: w & 0x4000 != 0, lt: ((w >> 12) & 3) as u8, gse_len: (w & 0x0FFF) as usize })
}
pub fn crc_mpeg2(data: &[u8]) -> u32 {
    let mut c = 0xFFFF_FFFFu32;
    for b in data {
        c ^= (*b as u32) << 24;
        for _ in 0..8 { c = if c & 0x8000_0000 != 0 { (c << 1) ^ 0x04C1_1DB7 } else { c << 1 }; }
    }
    c
}
