//! Native replays against the real crate: defect witnesses (known_findings.json), witness searches for failed
//! obligations, and re-execution of stored replay files.  Trusted for *display* of failing inputs only.
mod oracle;
mod witnesses;
mod search;
mod diff;

fn main() {
    let args: Vec<String> = std::env::args().collect();
    std::panic::set_hook(Box::new(|_| {}));
    match args.get(1).map(|s| s.as_str()) {
        Some("witness") => {
            let mut bad = 0;
            let names: Vec<&str> = if args.len() > 2 { args[2..].iter().map(|s| s.as_str()).collect() } else { witnesses::ALL.iter().map(|w| w.0).collect() };
            for n in names {
                match witnesses::run(n) {
                    Some(Ok(())) => println!("{n}: HOLDS"),
                    Some(Err(e)) => { println!("{n}: FAILS: {e}"); bad += 1; }
                    None => { println!("{n}: unknown witness"); bad += 1; }
                }
            }
            std::process::exit(if bad > 0 { 1 } else { 0 });
        }
        Some("search") => {
            let pid = args.get(2).cloned().unwrap_or_default();
            if let Some(w) = search::search(&pid, &args[3..]) { println!("WITNESS {w}"); }
        }
        Some("replay") => {
            let w = args.get(2).cloned().unwrap_or_default();
            match search::replay(&w) {
                Some(msg) => println!("REPRODUCED: {msg}"),
                None => println!("not reproduced on this tree"),
            }
        }
        Some("standin") => {
            let name = args.get(2).cloned().unwrap_or_default();
            let (n, hit) = search::search_named(&name);
            println!("CASES {n}");
            if let Some(w) = hit { println!("WITNESS {w}"); }
        }
        Some("diff") => {
            let from: u64 = args.get(2).and_then(|s| s.parse().ok()).unwrap_or(0);
            let n: u64 = args.get(3).and_then(|s| s.parse().ok()).unwrap_or(20000);
            match diff::first_difference(from, n) {
                Some((seed, a, b)) => { println!("DIFFERENT seed={seed}"); println!("pinned : {a}"); println!("current: {b}"); }
                None => println!("SAME on {n} scenarios"),
            }
        }
        Some("selftest") => {
            let hits = search::selftest();
            for h in &hits { println!("FALSE-HIT {h}"); }
            std::process::exit(if hits.is_empty() { 0 } else { 1 });
        }
        _ => eprintln!("usage: replay witness [name..] | search <Cxx> [obligation..] | replay <json>"),
    }
}
