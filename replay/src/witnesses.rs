//! The defect witnesses of DESIGN.md section 7, executed against the real crate.
//! Ok(()) = the property holds on this input; Err(what) = the defect is (still) there.
use crate::oracle::*;
use dvb_gse_rust::crc::DefaultCrc;
use dvb_gse_rust::gse_decap::{DecapError, DecapStatus, Decapsulator, GseDecapMemory, SimpleGseMemory, DecapMemoryError};
use dvb_gse_rust::gse_encap::{encap_frag_preview, encap_preview, ContextFrag, EncapMetadata, EncapStatus, Encapsulator};
use dvb_gse_rust::header_extension::{Extension, SimpleMandatoryExtensionHeaderManager};
use dvb_gse_rust::label::Label;

type W = (&'static str, fn() -> Result<(), String>);
pub const ALL: &[W] = &[
    ("D1a", d1a), ("D1b", d1b), ("D2", d2), ("D3", d3), ("D4", d4), ("D5", d5), ("D6", d6), ("D7", d7),
    ("D8a", d8a), ("D8b", d8b), ("D8c", d8c), ("D8d", d8d), ("D8e", d8e), ("D9", d9), ("D9b", d9b), ("D10", d10),
    ("D11", d11), ("D12", d12), ("D13", d13), ("D14", d14), ("D15", d15), ("D16", d16), ("D17", d17),
];
pub fn run(name: &str) -> Option<Result<(), String>> {
    ALL.iter().find(|w| w.0 == name).map(|w| match no_panic(w.1) { Ok(r) => r, Err(_) => Err("panic".into()) })
}

fn enc() -> Encapsulator<DefaultCrc> { Encapsulator::new(DefaultCrc {}) }
fn md(l: Label) -> EncapMetadata { EncapMetadata::new(0x0800, l) }
fn dec(slots: usize, size: usize, nbuf: usize) -> Decapsulator<SimpleGseMemory, DefaultCrc, SimpleMandatoryExtensionHeaderManager> {
    let mut m = SimpleGseMemory::new(slots, size, 0, 0);
    for _ in 0..nbuf { m.provision_storage(vec![0u8; size].into_boxed_slice()).unwrap(); }
    Decapsulator::new(m, DefaultCrc {}, SimpleMandatoryExtensionHeaderManager {})
}
fn gse_len_ok(buf: &[u8], n: usize) -> Result<(), String> {
    let p = parse_hdr(buf).ok_or("short")?;
    if p.gse_len + 2 != n { return Err(format!("GSE length field {} but {} bytes reported", p.gse_len, n)); }
    Ok(())
}

/// PDU 5000, buffer 6000: must not panic, packet must be <= 4097 bytes with an exact GSE length
fn d1a() -> Result<(), String> {
    let pdu = vec![7u8; 5000]; let mut buf = vec![0u8; 6000];
    let r = no_panic(|| enc().encap(&pdu, 1, md(Label::Broadcast), &mut buf))?;
    match r { Ok(EncapStatus::FragmentedPkt(n, _)) => { if n as usize > 4097 { return Err(format!("packet of {n} bytes")); } gse_len_ok(&buf, n as usize) }
              other => Err(format!("unexpected {:?}", other)) }
}
/// PDU 5000, buffer 4500
fn d1b() -> Result<(), String> {
    let pdu = vec![7u8; 5000]; let mut buf = vec![0u8; 4500];
    let r = no_panic(|| enc().encap(&pdu, 1, md(Label::Broadcast), &mut buf))?;
    match r { Ok(EncapStatus::FragmentedPkt(n, _)) => { if n as usize > 4097 { return Err(format!("packet of {n} bytes")); } gse_len_ok(&buf, n as usize) }
              other => Err(format!("unexpected {:?}", other)) }
}
/// 60000 bytes remaining, buffer 70000: must be an intermediate fragment <= 4097 bytes
fn d2() -> Result<(), String> {
    let pdu = vec![7u8; 60010]; let mut buf = vec![0u8; 70000];
    let ctx = ContextFrag::new(3, 0xdeadbeef, 10);
    let r = no_panic(|| enc().encap_frag(&pdu, &ctx, &mut buf))?;
    match r { Ok(EncapStatus::FragmentedPkt(n, c)) => { if n as usize > 4097 { return Err(format!("packet of {n} bytes")); }
                  if c.len_pdu_frag() as usize != 10 + n as usize - 3 { return Err("context not advanced by the payload".into()); } gse_len_ok(&buf, n as usize) }
              other => Err(format!("unexpected {:?}", other)) }
}
/// nothing remaining, buffer 5: an empty intermediate fragment is useless (receiver rejects it)
fn d3() -> Result<(), String> {
    let pdu = vec![7u8; 10]; let mut buf = vec![0u8; 5];
    let ctx = ContextFrag::new(3, 1, 10);
    match no_panic(|| enc().encap_frag(&pdu, &ctx, &mut buf))? { Err(_) => Ok(()), Ok(s) => Err(format!("answered {:?}", s)) }
}
/// ok(A); failed encap(B) must leave the encapsulator unchanged
fn d4() -> Result<(), String> {
    let a = Label::ThreeBytesLabel([1, 2, 3]); let b = Label::ThreeBytesLabel([4, 5, 6]);
    let mut e = enc(); let mut buf = vec![0u8; 100];
    e.encap(&[1, 2, 3], 0, md(a), &mut buf).map_err(|e| format!("{:?}", e))?;
    let snap = e.clone();
    let mut small = [0u8; 3];
    if e.encap(&[1, 2, 3], 0, md(b), &mut small).is_ok() { return Err("3-byte buffer accepted".into()); }
    if e != snap { return Err("failed call changed the encapsulator".into()); }
    e.encap(&[1, 2, 3], 0, md(b), &mut buf).map_err(|e| format!("{:?}", e))?;
    if parse_hdr(&buf).unwrap().lt == 3 { return Err("label B replaced by re-use although the previous packet carried A".into()); }
    Ok(())
}
/// ok(A); disable; ok(B); enable; encap(A) must carry A in full (receiver remembers B)
fn d5() -> Result<(), String> {
    let a = Label::ThreeBytesLabel([1, 2, 3]); let b = Label::ThreeBytesLabel([4, 5, 6]);
    let mut e = enc(); let mut buf = vec![0u8; 100];
    e.encap(&[1], 0, md(a), &mut buf).unwrap();
    e.disable_re_use_label();
    e.encap(&[1], 0, md(b), &mut buf).unwrap();
    e.enable_re_use_label();
    e.encap(&[1], 0, md(a), &mut buf).unwrap();
    if parse_hdr(&buf).unwrap().lt == 3 { return Err("re-use marker emitted for A while the receiver remembers B".into()); }
    Ok(())
}
fn d6() -> Result<(), String> {
    match no_panic(|| Extension::new(0x600, &[]))? { Err(_) => Ok(()), Ok(_) => Err("id 0x600 accepted".into()) }
}
/// ptype 0x50 with an optional last extension cannot be decoded
fn d7() -> Result<(), String> {
    let ext = Extension::new(0x100, &[]).unwrap();
    let mut buf = vec![0u8; 100];
    match no_panic(|| enc().encap_ext(&[1, 2], 0, EncapMetadata::new(0x50, Label::Broadcast), &mut buf, vec![ext]))? {
        Err(_) => Ok(()), Ok(s) => Err(format!("emitted {:?} without a protocol type", s)) }
}
fn decap_total(bytes: &[u8]) -> Result<(), String> {
    let mut d = dec(2, 100, 2);
    match no_panic(|| d.decap(bytes))? {
        Ok((_, n)) | Err((_, n)) => if n > bytes.len() || n < bytes.len().min(2) { Err(format!("consumed {n} of {}", bytes.len())) } else { Ok(()) }
    }
}
fn d8a() -> Result<(), String> { decap_total(&[0xC0, 0x00]) }
fn d8b() -> Result<(), String> { decap_total(&[0x80, 0x00]) }
fn d8c() -> Result<(), String> { decap_total(&[0x30, 0x00]) }
fn d8d() -> Result<(), String> { decap_total(&[0x70, 0x00]) }
fn d8e() -> Result<(), String> { decap_total(&[0xC0, 0x03, 0xFF, 0xFF, 1]) }
/// first fragment larger than the storage: error, not panic
fn d9() -> Result<(), String> {
    let mut d = dec(1, 4, 1);
    let mut pkt = vec![0xA0, 15, 1, 0, 100, 0x08, 0x00]; pkt.extend_from_slice(&[9u8; 10]);
    match no_panic(|| d.decap(&pkt))? { Err(_) => Ok(()), Ok(_) => Err("accepted".into()) }
}
/// free list full when a buffer has to be given back
fn d9b() -> Result<(), String> {
    let mut m = SimpleGseMemory::new(1, 8, 0, 0);
    for _ in 0..3 { m.provision_storage(vec![0u8; 8].into_boxed_slice()).unwrap(); }
    let mut d = Decapsulator::new(m, DefaultCrc {}, SimpleMandatoryExtensionHeaderManager {});
    let mut first = vec![0xA0, 9, 7, 0, 100, 0x08, 0x00]; first.extend_from_slice(&[1u8; 4]);
    no_panic(|| d.decap(&first))?.map_err(|e| format!("first: {:?}", e))?;
    let _ = d.provision_storage(vec![0u8; 8].into_boxed_slice());
    let mut inter = vec![0x30, 21, 7]; inter.extend_from_slice(&[2u8; 20]);
    match no_panic(|| d.decap(&inter))? { Err(_) => Ok(()), Ok(_) => Err("oversize intermediate accepted".into()) }
}
/// stray intermediate with an aliasing id must not destroy the open reassembly
fn d10() -> Result<(), String> {
    let mut d = dec(2, 32, 2);
    let mut first = vec![0xA0, 9, 1, 0, 10, 0x08, 0x00]; first.extend_from_slice(&[1u8; 4]);
    no_panic(|| d.decap(&first))?.map_err(|e| format!("first: {:?}", e))?;
    let stray = vec![0x30, 3, 3, 9, 9];
    let _ = no_panic(|| d.decap(&stray))?;
    match d.memory.take_frag(1) { Ok(_) => Ok(()), Err(e) => Err(format!("reassembly of id 1 destroyed: {:?}", e)) }
}
/// complete packet with re-use label and no remembered label: storage must not leak
fn d11() -> Result<(), String> {
    let mut d = dec(1, 16, 1);
    let pkt = vec![0xF0, 4, 0x08, 0x00, 1, 2];
    let r = no_panic(|| d.decap(&pkt))?;
    if r.is_ok() { return Err("accepted".into()); }
    match d.new_pdu() { Ok(_) => Ok(()), Err(e) => Err(format!("storage leaked: {:?}", e)) }
}
fn d12() -> Result<(), String> {
    let mut d = Decapsulator::new(SimpleGseMemory::new(0, 16, 0, 0), DefaultCrc {}, SimpleMandatoryExtensionHeaderManager {});
    let _ = d.provision_storage(vec![0u8; 16].into_boxed_slice());
    let mut first = vec![0xA0, 9, 1, 0, 10, 0x08, 0x00]; first.extend_from_slice(&[1u8; 4]);
    no_panic(|| d.decap(&first)).map(|_| ())
}
/// encap_ext first fragment: reported length must equal GSE length + 2
fn d13() -> Result<(), String> {
    let ext = Extension::new(0x200, &[1, 2]).unwrap();
    let pdu = vec![5u8; 100]; let mut buf = vec![0u8; 40];
    match no_panic(|| enc().encap_ext(&pdu, 1, md(Label::Broadcast), &mut buf, vec![ext]))? {
        Ok(EncapStatus::FragmentedPkt(n, _)) => gse_len_ok(&buf, n as usize),
        other => Err(format!("unexpected {:?}", other)) }
}
/// 70000-byte storage, total length 0xFFFF, 4000-byte intermediates
fn d14() -> Result<(), String> {
    let mut d = dec(1, 70000, 1);
    let mut first = vec![0xA0, 9, 1, 0xFF, 0xFF, 0x08, 0x00]; first.extend_from_slice(&[1u8; 4]);
    no_panic(|| d.decap(&first))?.map_err(|e| format!("first: {:?}", e))?;
    let mut inter = vec![0x3F, 0xA1, 1]; inter.extend_from_slice(&vec![2u8; 4000]);
    for i in 0..20 {
        match no_panic(|| d.decap(&inter)) { Err(_) => return Err(format!("panic at intermediate {i}")), Ok(Err(_)) => return Ok(()), Ok(Ok(_)) => {} }
    }
    Err("more bytes accepted than the announced total length".into())
}
fn d15() -> Result<(), String> {
    let mut buf = vec![0u8; 100];
    let m = EncapMetadata::new(0x81, Label::Broadcast);
    let p = encap_preview(&[1; 16], m, &buf).map(|p| p.pkt_len());
    let e = enc().encap(&[1; 16], 0, m, &mut buf);
    match (p, e) { (Ok(a), Ok(EncapStatus::CompletedPkt(b))) if a == b => Ok(()), (Err(_), Err(_)) => Ok(()), (p, e) => Err(format!("preview {:?} vs encap {:?}", p, e)) }
}
fn d16() -> Result<(), String> {
    let pdu = vec![1u8; 65000]; let mut buf = vec![0u8; 65543];
    let m = md(Label::Broadcast);
    let p = no_panic(|| encap_preview(&pdu, m, &buf))?.map(|p| p.pkt_len());
    let e = no_panic(|| enc().encap(&pdu, 0, m, &mut buf))?;
    match (p, e) { (Ok(a), Ok(EncapStatus::FragmentedPkt(b, _))) if a == b => Ok(()), (p, e) => Err(format!("preview {:?} vs encap {:?}", p, e)) }
}
/// 20-byte storage; first fragment with one 2-byte optional extension and 18 payload bytes fits
fn d17() -> Result<(), String> {
    let mut d = dec(1, 20, 1);
    let mut pkt = vec![0xA0, 5 + 4 + 18, 1, 0, 22, 0x02, 0x00, 0xAA, 0xBB, 0x08, 0x00]; pkt.extend_from_slice(&[3u8; 18]);
    match no_panic(|| d.decap(&pkt))? { Ok((DecapStatus::FragmentedPkt(_), _)) => Ok(()), other => Err(format!("{:?}", other.map(|x| x.1))) }
}
#[allow(dead_code)]
fn _unused(_: DecapError, _: DecapMemoryError) { let _ = encap_frag_preview; }
