// Included twice (modules `cur` and `base` of diff.rs) with `gse` bound to the crate under check resp. the pinned baseline.
// trace(seed) runs one pseudo-random, boundary-biased scenario through the public API and returns everything observable as text.
use self::gse::crc::{CrcCalculator, DefaultCrc};
use self::gse::gse_decap::{read_gse_header, DecapContext, DecapStatus, Decapsulator, GseDecapMemory, SimpleGseMemory};
use self::gse::gse_encap::{encap_frag_preview, encap_preview, generate_gse_header, ContextFrag, EncapMetadata, EncapStatus, Encapsulator};
use self::gse::header_extension::{Extension, MandatoryHeaderExt, MandatoryHeaderExtensionManager, SignalisationMandatoryExtensionHeaderManager, SimpleMandatoryExtensionHeaderManager};
use self::gse::label::{Label, LabelType};
use self::gse::utils::{GseCompletePacket, GseEndFragPacket, GseFirstFragPacket, GseIntermediatePacket, Serialisable};
use std::fmt::Write as _;

const SIZES: &[usize] = &[0, 1, 2, 3, 4, 5, 6, 7, 8, 9, 10, 11, 12, 13, 14, 15, 16, 17, 20, 26, 33, 64, 100, 255, 256, 1000, 4080, 4084, 4085, 4086, 4087, 4088, 4089, 4090,
    4091, 4092, 4093, 4094, 4095, 4096, 4097, 4098, 4099, 4100, 4104, 4110, 5000, 8190, 8200, 65520, 65525, 65527, 65528, 65529, 65530, 65531, 65533, 65534, 65535, 65536, 65539, 65543, 70000];
const PTYPES: &[u16] = &[0x0800, 0x0600, 0x0601, 0xFFFF, 0x0000, 0x0042, 0x0081, 0x0082, 0x00FF, 0x0100, 0x0245, 0x05FF, 0x86DD];

pub struct Rng(u64);
impl Rng {
    fn next(&mut self) -> u64 { self.0 ^= self.0 << 13; self.0 ^= self.0 >> 7; self.0 ^= self.0 << 17; self.0 }
    fn below(&mut self, n: usize) -> usize { (self.next() % n as u64) as usize }
    fn size(&mut self) -> usize { let s = SIZES[self.below(SIZES.len())]; match self.below(6) { 0 => s.saturating_sub(1), 1 => s + 1, _ => s } }
    fn small(&mut self) -> usize { let c = [0usize, 1, 2, 3, 5, 8, 13, 20, 26, 40, 100]; c[self.below(c.len())] }
    fn ptype(&mut self) -> u16 { if self.below(8) == 0 { self.next() as u16 } else { PTYPES[self.below(PTYPES.len())] } }
    fn label(&mut self) -> Label {
        match self.below(9) { 0 => Label::SixBytesLabel([1, 2, 3, 4, 5, 6]), 1 => Label::SixBytesLabel([9, 9, 9, 9, 9, 9]), 2 => Label::ThreeBytesLabel([7, 8, 9]), 3 => Label::ThreeBytesLabel([0, 0, 0]),
            4 => Label::Broadcast, 5 => Label::ReUse, 6 => Label::SixBytesLabel([0; 6]), 7 => Label::ThreeBytesLabel([1, 1, 1]), _ => Label::SixBytesLabel([0, 0, 0, 0, 0, 1]) }
    }
}
fn pdu_of(n: usize) -> Vec<u8> { (0..n).map(|i| (i * 7 + 3) as u8).collect() }
fn sum(b: &[u8]) -> u64 { let mut h = 1469598103934665603u64; for x in b { h ^= *x as u64; h = h.wrapping_mul(1099511628211); } h }
fn show(b: &[u8]) -> String { if b.len() <= 24 { format!("{:02x?}", b) } else { format!("{:02x?}..{:02x?}#{}:{:x}", &b[..12], &b[b.len() - 8..], b.len(), sum(b)) } }

/// a manager that knows a few mandatory ids
pub struct Mgr;
impl MandatoryHeaderExtensionManager for Mgr {
    fn is_mandatory_header_id_known(&self, id: u16) -> MandatoryHeaderExt {
        match id { 0x0042 => MandatoryHeaderExt::Final(3), 0x0043 => MandatoryHeaderExt::Final(0), 0x0005 => MandatoryHeaderExt::NonFinal(2), 0x0006 => MandatoryHeaderExt::NonFinal(0), _ => MandatoryHeaderExt::Unknown }
    }
}
type Dec<M> = Decapsulator<SimpleGseMemory, DefaultCrc, M>;
fn mem(slots: usize, size: usize, nbuf: usize) -> SimpleGseMemory {
    let mut m = SimpleGseMemory::new(slots, size, 0, 0);
    for k in 0..nbuf { let mut b = vec![0u8; size].into_boxed_slice(); if size > 0 { b[0] = k as u8 + 1; } let _ = m.provision_storage(b); }
    m
}
fn feed<M: MandatoryHeaderExtensionManager>(out: &mut String, d: &mut Dec<M>, pkt0: &[u8]) {
    // every third packet (by content) is presented inside a longer buffer, as in a frame: the consumed length must not depend on it
    let tail = sum(pkt0) % 3;
    let mut framed = pkt0.to_vec();
    if tail == 1 { framed.extend([0u8; 5]); } else if tail == 2 { framed.extend([0xA5u8, 0x5A, 0xFF]); }
    let pkt: &[u8] = &framed;
    let _ = write!(out, " peek={:?}", d.get_label_or_frag_id(pkt));
    match d.decap(pkt) {
        Ok((DecapStatus::CompletedPkt(b, md), n)) => { let l = md.pdu_len().min(b.len()); let _ = write!(out, " D:Completed n={} md={:?} pdu={}", n, md, show(&b[..l])); let _ = write!(out, " back={:?}", d.provision_storage(b).is_ok()); }
        Ok((st, n)) => { let _ = write!(out, " D:{:?} n={}", st, n); }
        Err((e, n)) => { let _ = write!(out, " D:Err({}) n={}", format!("{:?}", e).chars().take(60).collect::<String>(), n); }
    }
}
fn sender_ops(out: &mut String, r: &mut Rng, e: &mut Encapsulator<DefaultCrc>) {
    for _ in 0..r.below(3) {
        match r.below(8) {
            0 => e.reset_last_label(), 1 => e.disable_re_use_label(), 2 => e.enable_re_use_label(),
            3 => e.enable_re_use_label_with_max_consecutive([0u8, 1, 2, 255][r.below(4)]),
            4 => { let mut b = vec![0u8; 64]; let l = r.label(); let res = e.encap(&[1, 2, 3], 9, EncapMetadata::new(0x0800, l), &mut b); let _ = write!(out, " pre={:?}", res); }
            5 => { let mut b = vec![0u8; 3]; let l = r.label(); let res = e.encap(&[1, 2, 3], 9, EncapMetadata::new(0x0800, l), &mut b); let _ = write!(out, " prefail={:?}", res); }
            6 => { e.set_crc_calculator(DefaultCrc {}); let _ = e.get_crc_calculator(); }
            _ => { let _ = write!(out, " enabled={}", e.is_enabled_re_use_label()); }
        }
    }
}
fn exts(r: &mut Rng) -> Vec<Extension> {
    let mut v = vec![];
    let n = 1 + r.below(4);
    for i in 0..n {
        let last = i == n - 1;
        let (id, len): (u16, usize) = match r.below(if last { 9 } else { 7 }) { 0 => (0x0100, 0), 1 => (0x0245, 2), 2 => (0x0301, 4), 3 => (0x0410, 6), 4 => (0x05FF, 8), 5 => (0x0005, 2), 6 => (0x0006, 0), 7 => (0x0042, 3), _ => (0x0043, 0) };
        let data: Vec<u8> = (0..len).map(|k| 0xA0 + k as u8 + i as u8).collect();
        if let Ok(e) = Extension::new(id, &data) { v.push(e); }
    }
    v
}
fn transfer(out: &mut String, r: &mut Rng, with_ext: bool) {
    let mut e = Encapsulator::new(DefaultCrc {});
    sender_ops(out, r, &mut e);
    let label = r.label(); let pt = r.ptype(); let fid = [0u8, 1, 2, 5, 7, 255][r.below(6)];
    let big = r.below(3) == 0;
    let pl = if big { r.size() } else { r.small() }; let pdu = pdu_of(pl);
    let slots = [0usize, 1, 2, 3, 4, 8][r.below(6)];
    let mut d: Dec<Mgr> = Decapsulator::new(mem(slots, if r.below(4) == 0 { pl / 2 } else { pl + 8 }, 1 + r.below(3)), DefaultCrc {}, Mgr {});
    if r.below(3) == 0 { let mut b = vec![0u8; 64]; if let Ok(EncapStatus::CompletedPkt(n)) = e.encap(&[5, 5], 3, EncapMetadata::new(0x0800, label), &mut b) { feed(out, &mut d, &b[..n as usize]); } }
    let bl = if r.below(2) == 0 { r.size() } else { r.small() + 4 };
    let mut buf: Vec<u8> = (0..bl.min(80000)).map(|i| (i % 251) as u8 ^ 0x5A).collect();
    let md = EncapMetadata::new(pt, label);
    let chain = if with_ext { exts(r) } else { vec![] };
    let _ = write!(out, " prev={:?}", encap_preview(&pdu, md, &buf));
    let res = if with_ext { let _ = write!(out, " exts={:?}", chain); e.encap_ext(&pdu, fid, md, &mut buf, chain) } else { e.encap(&pdu, fid, md, &mut buf) };
    let _ = write!(out, " E={:?} state={:?} buf={}", res, e, show(&buf));
    let mut ctx = match res { Ok(EncapStatus::CompletedPkt(n)) => { let n = (n as usize).min(buf.len()); feed(out, &mut d, &buf[..n]); None }
        Ok(EncapStatus::FragmentedPkt(n, c)) => { let n = (n as usize).min(buf.len()); feed(out, &mut d, &buf[..n]); Some(c) }, Err(_) => None };
    let mut steps = 0;
    while let Some(c) = ctx {
        steps += 1; if steps > 10 { break; }
        if r.below(4) == 0 { let c2 = ContextFrag::new(c.frag_id(), c.crc(), c.len_pdu_frag()); let _ = write!(out, " ctx={:?}", c2 == c); }
        if r.below(5) == 0 { let stray = [0x30u8, 0x03, fid.wrapping_add([1u8, 4, 8][r.below(3)]), 1, 2]; feed(out, &mut d, &stray); }
        let bl = match r.below(4) { 0 => r.size(), 1 => r.below(8), _ => r.small() + 3 };
        let mut b2: Vec<u8> = vec![0x77; bl.min(80000)];
        let _ = write!(out, " fprev={:?}", encap_frag_preview(&pdu, &c, &b2));
        let res = e.encap_frag(&pdu, &c, &mut b2);
        let _ = write!(out, " F={:?} buf={}", res, show(&b2));
        ctx = match res { Ok(EncapStatus::CompletedPkt(n)) => { let n = (n as usize).min(b2.len()); feed(out, &mut d, &b2[..n]); None }
            Ok(EncapStatus::FragmentedPkt(n, c2)) => { let n = (n as usize).min(b2.len()); feed(out, &mut d, &b2[..n]); Some(c2) }, Err(_) => Some(c) };
    }
}
fn raw_decap(out: &mut String, r: &mut Rng) {
    let slots = [0usize, 1, 2, 3, 4][r.below(5)];
    let sz = [0usize, 4, 16, 64][r.below(4)];
    let nb = r.below(4);
    let sig = r.below(2) == 0;
    let mut d1: Dec<SimpleMandatoryExtensionHeaderManager> = Decapsulator::new(mem(slots, sz, nb), DefaultCrc {}, SimpleMandatoryExtensionHeaderManager {});
    let mut d2: Dec<SignalisationMandatoryExtensionHeaderManager> = Decapsulator::new(mem(slots, sz, nb), DefaultCrc {}, SignalisationMandatoryExtensionHeaderManager {});
    for _ in 0..1 + r.below(4) {
        let kind = r.below(4) as u16; let lt = r.below(4) as u16;
        let n = r.small(); let g = match r.below(5) { 0 => n as u16, 1 => (n as u16).wrapping_add(2), 2 => r.below(4096) as u16, 3 => 0, _ => (n as u16).saturating_sub(2) };
        let w: u16 = ((kind & 2) << 14) | ((kind & 1) << 14) | (lt << 12) | (g & 0x0FFF);
        let mut pkt = w.to_be_bytes().to_vec();
        for i in 0..n { pkt.push(match r.below(6) { 0 => 0, 1 => 0xFF, 2 => 1, 3 => [0x00u8, 0x06, 0x08, 0x02, 0x81][r.below(5)], _ => (i * 13 + 1) as u8 }); }
        if r.below(6) == 0 { pkt.truncate(r.below(3)); }
        let _ = write!(out, " pkt={}", show(&pkt));
        if sig { feed(out, &mut d2, &pkt); } else { feed(out, &mut d1, &pkt); }
        if r.below(5) == 0 { d1.reset_last_label(); d2.reset_last_label(); }
        if r.below(5) == 0 { let _ = write!(out, " np={:?}", d1.new_pdu().map(|b| b.len())); }
    }
}
fn memory_ops(out: &mut String, r: &mut Rng) {
    let slots = [0usize, 1, 2, 3, 4, 6, 256, 300][r.below(8)];
    let mut m = SimpleGseMemory::new(slots, 8, 0, 0);
    let mut tag = 1u8;
    for _ in 0..2 + r.below(9) {
        let id = [0u8, 1, 2, 3, 4, 5, 6, 8, 255][r.below(9)];
        let ctx = DecapContext::new(Label::ThreeBytesLabel([id, 1, 2]), 0x0800, id, 100, id as u16, false, vec![]);
        match r.below(5) {
            0 => { let size = [4usize, 8, 12][r.below(3)]; let mut b = vec![0u8; size].into_boxed_slice(); b[0] = tag; tag = tag.wrapping_add(1); let res = m.provision_storage(b); let _ = write!(out, " prov({})={:?}", size, res); }
            1 => { let _ = write!(out, " new_pdu={:?}", m.new_pdu()); }
            2 => { match m.new_frag(ctx) { Ok((c, b)) => { let _ = write!(out, " new_frag({})=Ok({:?},{:?})", id, c, b); let _ = write!(out, " save={:?}", m.save_frag((c, b))); } Err(e) => { let _ = write!(out, " new_frag({})=Err({:?})", id, e); } } }
            3 => { match m.take_frag(id) { Ok((c, b)) => { let _ = write!(out, " take({})=Ok({:?},{:?})", id, c, b); if r.below(3) > 0 { let _ = write!(out, " save={:?}", m.save_frag((c, b))); } } Err(e) => { let _ = write!(out, " take({})=Err({:?})", id, e); } } }
            _ => { let mut b = vec![0u8; 8].into_boxed_slice(); b[0] = 200; let _ = write!(out, " save({})={:?}", id, m.save_frag((ctx, b))); }
        }
    }
    let _ = write!(out, " mem={:?}", m);
}
fn small_fns(out: &mut String, r: &mut Rng) {
    let w = if r.below(3) == 0 { r.next() as u16 } else { [0u16, 0x001A, 0x0FFF, 0x1000, 0x2000, 0x3000, 0x4000, 0x8000, 0xC000, 0xFFFF, 0x0100, 0x8FFF][r.below(12)] };
    let h = read_gse_header(w);
    let _ = write!(out, " hdr({:04x})={:?}", w, h);
    if let Some((g, k, t)) = h { let _ = write!(out, " gen={:04x}", generate_gse_header(&k, &t, g as u16)); let _ = write!(out, " gen2={:04x}", generate_gse_header(&k, &t, (g as u16).wrapping_add(0x1000))); let _ = write!(out, " tlen={}", t.len()); }
    let n = [0usize, 1, 2, 3, 4, 5, 6, 7, 8, 9, 10, 300][r.below(12)];
    let id = if r.below(2) == 0 { r.next() as u16 } else { [0u16, 0x42, 0xFF, 0x100, 0x1FF, 0x200, 0x245, 0x300, 0x400, 0x500, 0x5FF, 0x600, 0x601][r.below(13)] };
    let data: Vec<u8> = (0..n).map(|i| i as u8).collect();
    match Extension::new(id, &data) { Ok(e) => { let _ = write!(out, " ext={:?} len={} id={} data={:?}", e, e.len(), e.id(), e.data()); } Err(e) => { let _ = write!(out, " ext=Err({:?})", e); } }
    let l = r.label(); let _ = write!(out, " label={:?} len={} type={:?} bytes={:?}", l, l.len(), l.get_type(), l.get_bytes());
    let lt = match r.below(4) { 0 => LabelType::SixBytesLabel, 1 => LabelType::ThreeBytesLabel, 2 => LabelType::Broadcast, _ => LabelType::ReUse };
    let raw = [1u8, 2, 3, 4, 5, 6]; let _ = write!(out, " lnew={:?}", Label::new(&lt, &raw[..lt.len()]));
    let pl = r.small() + r.below(3) * 1000; let pdu = pdu_of(pl); let ll = r.below(7); let lab: Vec<u8> = (0..ll).map(|i| 0x90 + i as u8).collect();
    let _ = write!(out, " crc={:08x}", (DefaultCrc {}).calculate_crc32(&pdu, r.ptype(), r.next() as u16, &lab));
    if r.below(6) == 0 { let n = [4095usize, 4096, 4097, 65533, 65534, 65535, 65536, 70000][r.below(8)]; let big = pdu_of(n); let _ = write!(out, " crcbig({})={:08x}", n, (DefaultCrc {}).calculate_crc32(&big, 0x0800, 0xFFFF, &[1, 2, 3])); }
    let c = ContextFrag::new(r.next() as u8, r.next() as u32, r.next() as u16); let _ = write!(out, " ctx=({},{:08x},{})", c.frag_id(), c.crc(), c.len_pdu_frag());
    // previews over the size lattice
    let (pl, bl) = (r.size(), r.size()); let pdu = vec![0u8; pl.min(80000)]; let buf = vec![0u8; bl.min(80000)]; let md = EncapMetadata::new(r.ptype(), r.label());
    match encap_preview(&pdu, md, &buf) { Ok(p) => { let _ = write!(out, " P=({:?},{},{})", p.pkt_type(), p.pdu_len(), p.pkt_len()); } Err(e) => { let _ = write!(out, " P=Err({:?})", e); } }
    let c = ContextFrag::new(1, 2, [0u16, 1, 100, 4000, 65535][r.below(5)].min(65535));
    match encap_frag_preview(&pdu, &c, &buf) { Ok(p) => { let _ = write!(out, " Q=({:?},{},{})", p.pkt_type(), p.pdu_len(), p.pkt_len()); } Err(e) => { let _ = write!(out, " Q=Err({:?})", e); } }
    // utils
    let pl = r.small(); let pdu = pdu_of(pl); let label = [Label::SixBytesLabel([1, 2, 3, 4, 5, 6]), Label::ThreeBytesLabel([0, 0, 0]), Label::Broadcast, Label::ReUse][r.below(4)]; let ll = label.len();
    let mut b = vec![0u8; pl + 40]; let pt = r.ptype();
    match r.below(4) {
        0 => { let x = GseCompletePacket::new((2 + ll + pl) as u16, pt, label, &pdu); x.generate(&mut b); let _ = write!(out, " U0={} {:?}", show(&b[..4 + ll + pl]), GseCompletePacket::parse(&b[..4 + ll + pl])); }
        1 => { let x = GseFirstFragPacket::new((5 + ll + pl) as u16, 7, r.next() as u16, pt, label, &pdu); x.generate(&mut b); let _ = write!(out, " U1={} {:?}", show(&b[..7 + ll + pl]), GseFirstFragPacket::parse(&b[..7 + ll + pl])); }
        2 => { let x = GseIntermediatePacket::new((1 + pl) as u16, 7, &pdu); x.generate(&mut b); let _ = write!(out, " U2={} {:?}", show(&b[..3 + pl]), GseIntermediatePacket::parse(&b[..3 + pl])); }
        _ => { let x = GseEndFragPacket::new((5 + pl) as u16, 7, &pdu, r.next() as u32); x.generate(&mut b); let _ = write!(out, " U3={} {:?}", show(&b[..7 + pl]), GseEndFragPacket::parse(&b[..7 + pl])); }
    }
}

/// histories that need a particular shape: duplicated / over-long fragments, bad CRC with a full free list, storage exhaustion,
/// restarts on a busy id, stray end packets, failing encap_ext calls, long runs of one label
fn shaped(out: &mut String, r: &mut Rng) {
    let mut e = Encapsulator::new(DefaultCrc {});
    let slots = [1usize, 2, 4][r.below(3)];
    let nbuf = r.below(slots + 4);
    let mut d: Dec<Mgr> = Decapsulator::new(mem(slots, 64, nbuf), DefaultCrc {}, Mgr {});
    let la = Label::SixBytesLabel([1, 2, 3, 4, 5, 6]); let lb = Label::ThreeBytesLabel([7, 8, 9]);
    match r.below(7) {
        6 => { // a lost PDU of the same flow: only its first fragment arrives, then a PDU with the same sizes and metadata
            let n = 30 + r.below(10); let x = pdu_of(n); let y: Vec<u8> = x.iter().map(|b| b ^ 0x3C).collect(); let fid = 0u8; let bsz = 20 + r.below(4);
            let mut b = vec![0u8; bsz]; e.disable_re_use_label();
            if let Ok(EncapStatus::FragmentedPkt(k, _)) = e.encap(&x, fid, EncapMetadata::new(0x0800, la), &mut b) { feed(out, &mut d, &b[..k as usize]); }
            let mut b = vec![0u8; bsz];
            let mut ctx = match e.encap(&y, fid, EncapMetadata::new(0x0800, la), &mut b) { Ok(EncapStatus::FragmentedPkt(k, c)) => { feed(out, &mut d, &b[..k as usize]); Some(c) } _ => None };
            let mut guard = 0; while let Some(c) = ctx { guard += 1; if guard > 8 { break; } let mut b = vec![0u8; 64]; ctx = match e.encap_frag(&y, &c, &mut b) { Ok(EncapStatus::FragmentedPkt(k, c2)) => { feed(out, &mut d, &b[..k as usize]); Some(c2) } Ok(EncapStatus::CompletedPkt(k)) => { feed(out, &mut d, &b[..k as usize]); None } Err(_) => None }; }
        }
        0 => { // fragment train with duplicates, an over-long intermediate, a corrupted end, the free list topped up
            let pdu = pdu_of(20 + r.below(30)); let fid = [1u8, 5][r.below(2)];
            let mut pk: Vec<Vec<u8>> = vec![]; let mut b = vec![0u8; 16 + r.below(8)];
            let mut ctx = match e.encap(&pdu, fid, EncapMetadata::new(0x0800, la), &mut b) { Ok(EncapStatus::FragmentedPkt(n, c)) => { pk.push(b[..n as usize].to_vec()); Some(c) } _ => None };
            while let Some(c) = ctx { let mut b = vec![0u8; 8 + r.below(12)]; ctx = match e.encap_frag(&pdu, &c, &mut b) { Ok(EncapStatus::FragmentedPkt(n, c2)) => { pk.push(b[..n as usize].to_vec()); Some(c2) } Ok(EncapStatus::CompletedPkt(n)) => { pk.push(b[..n as usize].to_vec()); None } Err(_) => None }; if pk.len() > 12 { break; } }
            let variant = r.below(5);
            for (i, p) in pk.iter().enumerate() {
                let last = i + 1 == pk.len();
                if last && variant == 0 { for _ in 0..6 { let _ = d.provision_storage(vec![0u8; 64].into_boxed_slice()); } let mut q = p.clone(); let k = q.len() - 1; q[k] ^= 0x40; feed(out, &mut d, &q); }
                if i == 1 && variant == 1 { feed(out, &mut d, p); feed(out, &mut d, p); feed(out, &mut d, p); }
                if i == 1 && variant == 2 { let mut big = vec![0x30u8, 60, fid]; big.extend(vec![0xEE; 58]); feed(out, &mut d, &big); }
                if i == 1 && variant == 3 { let stray = [0x70u8, 0x05, fid.wrapping_add([1u8, 4][r.below(2)]), 1, 2, 3, 4]; feed(out, &mut d, &stray); }
                if i == 1 && variant == 4 { if r.below(2) == 0 { for _ in 0..6 { let _ = d.provision_storage(vec![0u8; 64].into_boxed_slice()); } } feed(out, &mut d, &pk[0]); if pk.len() > 2 { feed(out, &mut d, &pk[1]); } }
                feed(out, &mut d, p);
            }
            let mut b = vec![0u8; 64]; if let Ok(EncapStatus::CompletedPkt(n)) = e.encap(&[1], 0, EncapMetadata::new(0x0800, la), &mut b) { feed(out, &mut d, &b[..n as usize]); }
        }
        1 => { // storage exhaustion while the label changes, then re-use
            let mut d: Dec<Mgr> = Decapsulator::new(mem(slots, 64, 1), DefaultCrc {}, Mgr {});
            let mut held = vec![];
            for (k, l) in [la, lb, lb, la, la].iter().enumerate() {
                let mut b = vec![0u8; 64];
                if let Ok(EncapStatus::CompletedPkt(n)) = e.encap(&[k as u8; 4], 0, EncapMetadata::new(0x0800, *l), &mut b) {
                    match d.decap(&b[..n as usize]) { Ok((DecapStatus::CompletedPkt(buf, md), c)) => { let _ = write!(out, " ok{} {:?} n={}", k, md, c); if k == 0 { held.push(buf); } else { let _ = d.provision_storage(buf); } } other => { let _ = write!(out, " r{}={:?}", k, other.map(|_| ()).map_err(|x| (format!("{:?}", x.0).chars().take(40).collect::<String>(), x.1))); } }
                    if k == 1 { for h in held.drain(..) { let _ = d.provision_storage(h); } }
                }
            }
        }
        2 => { // failing encap_ext / encap calls between two packets of different labels
            let mut b = vec![0u8; 20000];
            let big_ext: Vec<Extension> = (0..420).filter_map(|_| Extension::new(0x05FF, &[1, 2, 3, 4, 5, 6, 7, 8]).ok()).collect();
            let _ = write!(out, " a={:?}", e.encap(&[1, 2], 0, EncapMetadata::new(0x0800, la), &mut b).map(|_| ()));
            let which = r.below(4);
            let res = match which { 0 => e.encap_ext(&pdu_of(10), 0, EncapMetadata::new(0x0800, lb), &mut b, big_ext).map(|_| ()),
                1 => e.encap_ext(&vec![0u8; 65530], 0, EncapMetadata::new(0x0800, lb), &mut b, vec![Extension::new(0x0100, &[]).unwrap()]).map(|_| ()),
                2 => e.encap_ext(&pdu_of(10), 0, EncapMetadata::new(0x0800, lb), &mut b[..9], vec![Extension::new(0x0245, &[1, 2]).unwrap()]).map(|_| ()),
                _ => e.encap(&vec![0u8; 65530], 0, EncapMetadata::new(0x0800, lb), &mut b).map(|_| ()) };
            let _ = write!(out, " fail{}={:?} st={:?}", which, res, e);
            let r2 = e.encap(&[3, 4], 0, EncapMetadata::new(0x0800, lb), &mut b); let _ = write!(out, " b={:?} {}", r2, show(&b[..16]));
        }
        3 => { // long run of one label under a bound
            let max = [0u8, 1, 2, 254, 255][r.below(5)]; e.enable_re_use_label_with_max_consecutive(max);
            let mut pat = String::new(); let mut b = vec![0u8; 32];
            for _ in 0..(if max >= 254 { 520 } else { 12 }) { match std::panic::catch_unwind(std::panic::AssertUnwindSafe(|| e.encap(&[1], 0, EncapMetadata::new(0x0800, la), &mut b))) { Ok(Ok(_)) => pat.push(if (b[0] >> 4) & 3 == 3 { 'r' } else { 'F' }), Ok(Err(_)) => pat.push('e'), Err(_) => { pat.push('P'); break; } } }
            let _ = write!(out, " max={} pat={}", max, pat);
            let m2 = [1u8, 2, 3][r.below(3)]; e.enable_re_use_label_with_max_consecutive(5); let mut pat2 = String::new();
            for k in 0..14 { if k == 4 { e.enable_re_use_label_with_max_consecutive(m2); } if let Ok(_) = e.encap(&[1], 0, EncapMetadata::new(0x0800, la), &mut b) { pat2.push(if (b[0] >> 4) & 3 == 3 { 'r' } else { 'F' }); } }
            let _ = write!(out, " m2={} pat2={}", m2, pat2);
        }
        4 => { // restart of a train on a busy id with a full free list; then a fresh transfer
            let pdu = pdu_of(30); let fid = 2u8; let mut b = vec![0u8; 20];
            if let Ok(EncapStatus::FragmentedPkt(n, _)) = e.encap(&pdu, fid, EncapMetadata::new(0x0800, la), &mut b) {
                feed(out, &mut d, &b[..n as usize]);
                for _ in 0..8 { let _ = write!(out, " p={}", d.provision_storage(vec![0u8; 64].into_boxed_slice()).is_ok()); }
                e.reset_last_label(); d.reset_last_label();
                let mut b2 = vec![0u8; 20];
                if let Ok(EncapStatus::FragmentedPkt(n2, c)) = e.encap(&pdu, [fid, fid + slots as u8][r.below(2)], EncapMetadata::new(0x0800, lb), &mut b2) { feed(out, &mut d, &b2[..n2 as usize]); let mut b3 = vec![0u8; 64]; if let Ok(EncapStatus::CompletedPkt(n3)) = e.encap_frag(&pdu, &c, &mut b3) { feed(out, &mut d, &b3[..n3 as usize]); } }
            }
        }
        _ => { // huge total lengths through the receiver
            let mut d: Dec<Mgr> = Decapsulator::new(mem(2, 70000, 2), DefaultCrc {}, Mgr {});
            let total = [0xFFF0u16, 0xFFFF, 0xFFFE][r.below(3)];
            let mut first = vec![0xA0u8, 0x05 + 2, 3]; first.extend(total.to_be_bytes()); first.extend([0x08, 0x00]); first.extend([1, 2]); first[1] = 7;
            feed(out, &mut d, &first);
            for _ in 0..17 { let mut p = vec![0x3Fu8, 0xFF, 3]; p.extend(vec![0x11; 4094]); feed(out, &mut d, &p); }
        }
    }
}
pub fn trace(seed: u64) -> String {
    let mut r = Rng(seed.wrapping_mul(0x9E3779B97F4A7C15) | 1);
    let kind = seed % 10;
    let mut out = format!("k{}", kind);
    match kind { 0 | 1 | 2 => transfer(&mut out, &mut r, false), 3 | 4 => transfer(&mut out, &mut r, true), 5 => raw_decap(&mut out, &mut r), 6 => memory_ops(&mut out, &mut r), 7 => small_fns(&mut out, &mut r), _ => shaped(&mut out, &mut r) }
    out
}
